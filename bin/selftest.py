#!/usr/bin/python3
"""Validate the machinery itself (DESIGN.md section 6).

  selftest.py determinism [N]   N run indices per property, each executed in two different
                                process partitionings (16 and 3 workers); per-run trace hashes
                                and verdicts must be identical
  selftest.py fixed             every findings/fixed/*.replay must report no violation on /repo
  selftest.py reach             every fault kind / probe of the last quick evidence is non-zero
  selftest.py all
Exit 0 = fine, 1 = a self-check failed.
"""
import glob
import json
import os
import re
import subprocess
import sys

VERIF = os.path.dirname(os.path.dirname(os.path.abspath(__file__)))
sys.path.insert(0, os.path.join(VERIF, "bin"))
import check  # noqa: E402


def hashes(binary, prop, seed, ranges):
    procs = []
    for a, b in ranges:
        cmd = [binary, "--prop", prop, "--seed", str(seed), "--tier", "quick", "--from", str(a), "--to", str(b),
               "--dump-hashes", "--outdir", os.path.join(check.BUILD, "scratch", "selftest")]
        procs.append(subprocess.Popen(cmd, stdout=subprocess.PIPE, stderr=subprocess.DEVNULL, text=True))
    out = {}
    for p in procs:
        for line in p.stdout:
            if line.startswith("H "):
                _, i, hsh, verdict = line.split()[:4]
                out[int(i)] = (hsh, verdict)
        p.wait()
    return out


def split(n, k):
    per = (n + k - 1) // k
    return [(i * per, min(n, (i + 1) * per)) for i in range(k) if i * per < n]


def determinism(n):
    ok = True
    for prop in sorted(check.PROPS):
        engine = check.PROPS[prop]["engine"]
        bins, _ = check.build_engine(engine)
        if bins is None:
            print("determinism %s: build failed" % prop)
            ok = False
            continue
        for vname, binary in bins:
            for seed in (1, 20260928):
                a = hashes(binary, prop, seed, split(n, 16))
                b = hashes(binary, prop, seed, split(n, 3))
                diff = [i for i in range(n) if a.get(i) != b.get(i)]
                missing = [i for i in range(n) if i not in a or i not in b]
                state = "ok" if not diff and not missing else "MISMATCH"
                print("determinism %s %s seed=%d: %d runs x 2 partitionings: %s" % (prop, vname or engine, seed, n, state))
                if diff or missing:
                    ok = False
                    print("   first differing run indices:", diff[:10], "missing:", missing[:10])
    return ok


def fixed():
    ok = True
    known = json.load(open(os.path.join(VERIF, "known_findings.json")))["findings"]
    for f in sorted(glob.glob(os.path.join(VERIF, "findings", "fixed", "*.replay"))):
        text = open(f).read()
        m = re.search(r"engine (\S+) property (\S+)", text)
        engine, prop = m.group(1), m.group(2)
        bins, _ = check.build_engine(engine)
        r = subprocess.run([check.pick_binary(bins, text), "--replay", f, "--prop", prop], stdout=subprocess.PIPE, stderr=subprocess.PIPE, text=True)
        good = r.returncode == 0 and "no-violation" in r.stdout
        print("fixed %-60s %s" % (os.path.basename(f), "holds" if good else "VIOLATION RETURNED (rc=%d)" % r.returncode))
        ok = ok and good
    print("%d fixed entries in known_findings.json, %d open" % (sum(1 for k in known if k["status"] == "fixed"), sum(1 for k in known if k["status"] == "open")))
    return ok


def reach():
    ok = True
    for prop in sorted(check.PROPS):
        p = os.path.join(VERIF, "evidence", prop + ".json")
        if not os.path.exists(p):
            print("reach %s: no evidence file" % prop)
            ok = False
            continue
        c = json.load(open(p))["coverage"]
        fault_arm = c["arms"]["fault_executions"] > 0
        zero = []
        for k, v in list(c["faults_fired"].items()) + list(c["probes"].items()):
            if v:
                continue
            if k.endswith("pair_samples"):
                continue
            if k in ("fault.user.throw.fired", "fault.user.throw.sites_enumerated") and prop in ("C14", "C19", "C05", "C09", "C10", "C13", "C15", "C07"):
                continue  # these engines have no element-operation throw sites
            if k in ("fault.alloc.fail.fired", "fault.alloc.fail.sites_enumerated") and not fault_arm:
                continue
            if k.startswith("probe.fault_") and not fault_arm:
                continue
            if k == "probe.fork_handlers_run":
                continue  # nitro registers no fork handlers; counts what a changed sink registers
            if k in ("fault.sem.eintr", "probe.spinning_thread_preempted"):
                continue  # fire only if the code under test uses semaphores / spins on an atomic (nitro does neither; mutants and benign variants do)
            if k == "probe.run_with_more_than_256_threads" and prop != "C09":
                continue  # crowd runs belong to C09
            if k == "fault.lock.timeout":
                continue  # fires only if the code under test uses timed locks (nitro does not; mutants/benign variants do)
            if prop == "C09" and k in ("probe.records_through_sequence_sink", "probe.statement_issued_by_a_sink_while_handling_a_record"):
                continue  # C09 runs use the mt sinks only (the recording sink that logs on its own is not among them)
            if prop in ("C13",) and k in ("probe.parse_after_bad_alloc",):
                continue
            if prop in ("C14",) and k in ("probe.resolution_probe_parses",):
                continue
            zero.append(k)
        print("reach %s: %s" % (prop, "all fault kinds and probes fired" if not zero else "NEVER FIRED: " + ", ".join(zero)))
        ok = ok and not zero
    return ok


def main():
    what = sys.argv[1] if len(sys.argv) > 1 else "all"
    n = int(sys.argv[2]) if len(sys.argv) > 2 else 2000
    ok = True
    if what in ("determinism", "all"):
        ok = determinism(n) and ok
    if what in ("fixed", "all"):
        ok = fixed() and ok
    if what in ("reach", "all"):
        ok = reach() and ok
    print("SELFTEST", "OK" if ok else "FAILED")
    return 0 if ok else 1


if __name__ == "__main__":
    sys.exit(main())
