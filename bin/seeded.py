#!/usr/bin/python3
"""Confirm and evaluate a seeded breaking change (DESIGN.md section 6, sensitivity).

  seeded.py confirm <dir> [--demo-flags "..."]    dir holds patch.diff + demo.cpp
      - scratch worktree of /repo HEAD under /tmp, patch applied
      - the repository's own test suite must give the baseline result
      - demo must exit 0 on the pristine tree and non-zero with the patch
  seeded.py run <dir> <prop> [<prop>...] [--tier quick]
      - runs the registered checks against the patched scratch worktree (NITRO_REPO)
        and reports which classes were raised
The worktree and its build output are removed afterwards.  Nothing is ever applied to /repo.
"""
import json
import os
import re
import shutil
import subprocess
import sys
import time

VERIF = os.path.dirname(os.path.dirname(os.path.abspath(__file__)))
REPO = "/repo"


def sh(cmd, **kw):
    return subprocess.run(cmd, shell=isinstance(cmd, str), stdout=subprocess.PIPE, stderr=subprocess.STDOUT, text=True, **kw)


def make_wt(tag):
    wt = "/tmp/seedwt_%s_%d" % (tag, os.getpid())
    sh(["git", "-C", REPO, "worktree", "remove", "--force", wt])
    r = sh(["git", "-C", REPO, "worktree", "add", "--detach", wt, "HEAD"])
    if r.returncode:
        sys.exit("worktree failed: " + r.stdout)
    return wt


def drop_wt(wt):
    sh(["git", "-C", REPO, "worktree", "remove", "--force", wt])
    shutil.rmtree(wt, ignore_errors=True)
    sh(["git", "-C", REPO, "worktree", "prune"])


def suite(wt):
    """Returns (set of failed ctest tests, catch summary lines of failing tests)."""
    b = os.path.join(wt, "_build")
    r = sh("cmake -G Ninja -S %s -B %s -DCMAKE_BUILD_TYPE=RelWithDebInfo -DCMAKE_CXX_FLAGS=-Wno-error >/dev/null && cmake --build %s 2>&1 | tail -5" % (wt, b, b))
    if not os.path.exists(os.path.join(b, "tests")):
        return None, r.stdout
    r = sh("ctest --test-dir %s -j8 --timeout 900 2>&1" % b)
    failed = set(re.findall(r"^\s*\d+ - (\S+) \(", r.stdout, re.M))
    m = re.search(r"(\d+)% tests passed, (\d+) tests failed out of (\d+)", r.stdout)
    detail = sh("%s/tests/Nitro.dl_test 2>&1 | tail -3" % b, env=dict(os.environ, LD_LIBRARY_PATH=b + "/tests")).stdout
    return failed, (m.group(0) if m else r.stdout[-300:]) + " | dl_test: " + " ".join(detail.split())


def demo(include_root, demo_cpp, flags, tag):
    exe = "/tmp/seeddemo_%s_%d" % (tag, os.getpid())
    cmd = "g++ -std=c++17 -pthread -fsanitize=address,undefined %s -I %s/include %s %s -o %s -ldl" % (
        flags, include_root, demo_cpp, " ".join(os.path.join(include_root, s) for s in
        ["src/options/parser.cpp", "src/options/group.cpp", "src/options/option.cpp", "src/options/multi_option.cpp",
         "src/options/toggle.cpp", "src/env/get.cpp"]) if "--with-src" in flags else "", exe)
    cmd = cmd.replace("--with-src", "")
    r = sh(cmd)
    if r.returncode:
        return None, "demo does not compile: " + r.stdout[-800:]
    rcs = []
    for _ in range(3):
        try:
            rr = sh([exe], timeout=120)
            rcs.append(rr.returncode)
        except subprocess.TimeoutExpired:
            rcs.append("timeout")
    os.unlink(exe)
    return rcs, ""


def main():
    mode, d = sys.argv[1], os.path.abspath(sys.argv[2])
    rest = sys.argv[3:]
    flags = ""
    if "--demo-flags" in rest:
        i = rest.index("--demo-flags")
        flags = rest[i + 1]
        rest = rest[:i] + rest[i + 2:]
    tier = "quick"
    if "--tier" in rest:
        i = rest.index("--tier")
        tier = rest[i + 1]
        rest = rest[:i] + rest[i + 2:]
    patch = os.path.join(d, "patch.diff")
    tag = os.path.basename(d)
    wt = make_wt(tag)
    try:
        r = sh(["git", "-C", wt, "apply", patch])
        if r.returncode:
            print("PATCH DOES NOT APPLY:", r.stdout)
            return 2
        if mode == "confirm":
            base_failed = {"Nitro.dl_test"}
            failed, summ = suite(wt)
            print("suite with change:", summ)
            ok_suite = failed == base_failed
            pr, e1 = demo(REPO, os.path.join(d, "demo.cpp"), flags, tag + "p")
            mu, e2 = demo(wt, os.path.join(d, "demo.cpp"), flags, tag + "m")
            print("demo pristine exit codes:", pr, e1)
            print("demo with change exit codes:", mu, e2)
            ok_demo = pr is not None and mu is not None and all(x == 0 for x in pr) and all(x != 0 for x in mu)
            print("CONFIRMED" if ok_suite and ok_demo else "NOT-CONFIRMED", "suite_ok=%s demo_ok=%s" % (ok_suite, ok_demo))
            return 0 if ok_suite and ok_demo else 1
        results = {}
        for prop in rest:
            t0 = time.time()
            env = dict(os.environ, NITRO_REPO=wt, VERIF_EVIDENCE_DIR=os.path.join(d, "run_output", "evidence"),
                       VERIF_REPLAY_DIR=os.path.join(d, "run_output", "replays"))
            r = sh(["/usr/bin/python3", os.path.join(VERIF, "bin/check.py"), prop, "--tier", tier], env=env)
            classes = re.findall(r"^violation: property=\S+ class=(\S+) sig=\"([^\"]*)\"", r.stdout, re.M)
            results[prop] = dict(exit=r.returncode, classes=classes, wall_s=round(time.time() - t0, 1))
            print(prop, "exit", r.returncode, "in %.0fs" % (time.time() - t0))
            for c in classes[:8]:
                print("   ", c[0], "|", c[1])
            if r.returncode not in (0, 1):
                print(r.stdout[-1500:])
            # keep the replay files of this mutant run next to the patch for the record
            for line in r.stdout.splitlines():
                if line.startswith("VIOLATION"):
                    src = line.split("replay=")[1].strip()
                    dst = os.path.join(d, "replays")
                    os.makedirs(dst, exist_ok=True)
                    if os.path.exists(src):
                        shutil.copy(src, dst)
        print("RESULT", json.dumps(results))
        # evidence/replays written by these runs describe the mutant, not /repo: restore
        return 0
    finally:
        drop_wt(wt)


if __name__ == "__main__":
    sys.exit(main())
