#!/usr/bin/python3
"""Run the quick checks against every seeded breaking change (must be caught) and every
behaviour-preserving change (must stay silent).  Each change is applied to a scratch worktree of
/repo under /tmp (never to /repo itself) by bin/seeded.py.

  regress.py [seeded|benign|mutants|all] [name-prefix]

Writes regress_results.json and prints one line per change.
"""
import json
import os
import re
import subprocess
import sys

VERIF = os.path.dirname(os.path.dirname(os.path.abspath(__file__)))

BENIGN_PROPS = {"L": ["C05", "C09", "C10"], "M": ["C05", "C09", "C10"], "C09": ["C09"],
                "P1": ["C06", "C07"], "P2": ["C06", "C07"], "P3": ["C06", "C07"], "P4": ["C13"], "P5": ["C14"], "P6": ["C14"],
                "P7": ["C15"], "P8": ["C15"], "P9": ["C18"], "P10": ["C18"], "P11": ["C19"], "P12": ["C19"],
                "O1": ["C06", "C07"], "O2": ["C06", "C07"], "O3": ["C13"], "O4": ["C13"], "O5": ["C14"], "O6": ["C14"],
                "O7": ["C15"], "O8": ["C15"], "O9": ["C18"], "O10": ["C18"], "O11": ["C19"], "O12": ["C19"]}
PAIRS = {"C05": ["C05", "C10"], "C10": ["C10", "C05"], "C09": ["C09"], "C06": ["C06", "C07"], "C07": ["C07", "C06"]}


def props_for(kind, name):
    if kind == "benign":
        for k in sorted(BENIGN_PROPS, key=len, reverse=True):
            if name == k or (k in ("L", "M", "C09") and name.startswith(k)):
                return BENIGN_PROPS[k]
    p = name[:3]
    return PAIRS.get(p, [p])


def main():
    what = sys.argv[1] if len(sys.argv) > 1 else "all"
    prefix = sys.argv[2] if len(sys.argv) > 2 else ""
    kinds = ["seeded", "mutants", "benign"] if what == "all" else [what]
    results = {}
    rp = os.path.join(VERIF, "regress_results.json")
    if os.path.exists(rp):
        results = json.load(open(rp))
    bad = 0
    for kind in kinds:
        base = os.path.join(VERIF, kind)
        if not os.path.isdir(base):
            continue
        for name in sorted(os.listdir(base)):
            d = os.path.join(base, name)
            if not name.startswith(prefix) or not os.path.exists(os.path.join(d, "patch.diff")):
                continue
            props = props_for(kind, name)
            r = subprocess.run(["/usr/bin/python3", os.path.join(VERIF, "bin/seeded.py"), "run", d] + props,
                               stdout=subprocess.PIPE, stderr=subprocess.STDOUT, text=True)
            m = re.search(r"^RESULT (.*)$", r.stdout, re.M)
            res = json.loads(m.group(1)) if m else {}
            exits = {p: res.get(p, {}).get("exit") for p in props}
            classes = sorted(set(c[0] for p in props for c in res.get(p, {}).get("classes", [])))
            if kind == "benign":
                ok = all(e == 0 for e in exits.values())
                verdict = "silent" if ok else "ALARM"
            else:
                ok = any(e == 1 for e in exits.values()) and not any(e not in (0, 1) for e in exits.values())
                verdict = "caught" if ok else ("HARNESS-EXIT" if any(e not in (0, 1) for e in exits.values()) else "MISSED")
            bad += 0 if ok else 1
            results["%s/%s" % (kind, name)] = dict(exits=exits, classes=classes, verdict=verdict)
            print("%-8s %-34s %-12s %s %s" % (kind, name, verdict, exits, " ".join(classes[:4])), flush=True)
            with open(rp, "w") as f:
                json.dump(results, f, indent=1, sort_keys=True)
            subprocess.run(["rm", "-rf", os.path.join(d, "run_output")])
    print("REGRESS", "OK" if not bad else "%d PROBLEM(S)" % bad)
    return 0 if not bad else 1


if __name__ == "__main__":
    sys.exit(main())
