#!/usr/bin/python3
"""Regenerate /verif/MANIFEST.json from the tables below (keeps checks / not_applicable in sync)."""
import json
import os
import subprocess

VERIF = os.path.dirname(os.path.dirname(os.path.abspath(__file__)))

ENGINE_TEXT = {
    "fvsim": "deterministic simulation of call histories on fixed_vector<T> with instrumented element types; enumerated element-throw / allocation faults; bounded-sequence reference model",
    "ownsim": "deterministic simulation of call histories on quaint_ptr / vector<quaint_ptr> / optional<T> with instance-counting payloads; enumerated payload-constructor / allocation faults; ownership-table reference model",
    "logsim": "seeded serialising scheduler over parked real threads; pthread_mutex_* wrapped at link time; not-thread-safe simulated stream buffer behind cout/cerr; simulated clock; runtime threshold flips; a seventh build variant compiled with TSan instrumentation and a stand-in runtime makes atomic operations yield points; real nitro::log front end",
    "optsim": "deterministic simulation of sessions on one long-lived options parser (declare / move / env change / parse, aborted parses, allocation faults) against a freshly built twin and a declaration table",
    "usagesim": "simulated target streams (non-seekable, offset, pre-filled, tiny buffers, chunked, failing) for parser::usage(); text must be identical on every stream",
    "dlsim": "simulated dynamic loader attached with -Wl,--wrap (handle table, reference counts, pending error string, failing opens/lookups, NULL symbols, stale errors), a second configuration forwarding to the real loader, plus the real process environment; enumerated allocation faults",
}

CHECKS = {
    "C05": dict(engine="logsim", level="exploration", ref="3.1",
                text="seeded plans of 1-4 simulated threads x 1-5 log statements (expression and named form, overlapping named streams, lazily evaluated and throwing callables, statements issued by a sink member while it handles a record, with/without tag) through 22 logger types (8 filter expressions x recording / 3-member sequence / mt sinks x records with and without tag) at each of the 6 compile-time minima, with runtime threshold flips and clock jumps placed inside statements' lifetimes by the scheduler; every statement is judged against a reference evaluator of the filter expression: formatted and sunk exactly once iff enabled, severity/tag/message unaltered, sequence members once each in order with the identical string, per-thread delivery order = statement end order",
                note="exploration over sampled schedules and plans; filter expressions are types, so 'all expressions' is a catalogue of every combinator at depth <= 2; when thresholds change while a statement is alive and the expression's verdict differs between those states, either verdict is accepted (but only one: evaluated callables imply delivery)",
                tech="deterministic simulation: seeded thread scheduler + fault injection (threshold flips, throwing callables, clock jumps) with per-statement reference oracle"),
    "C09": dict(engine="logsim", level="exploration", ref="3.1",
                text="2-4 simulated threads (and, about once in 600 runs, a crowd of 258-300 threads queued behind a stalled writer) log through stdout_mt / StdErrThreaded / sequence<stdout_mt,StdErrThreaded>; std::mutex lock/unlock/trylock are scheduler yield points with modelled ownership, and the buffer of cout/cerr is a chunking, buffered, deliberately not thread-safe stream buffer with yields inside xsputn/sync; after each run the device bytes must parse as whole records, the multiset of records must equal the enabled statements, each thread's records must be in program order, no thread may enter the buffer while another is inside, no mutex may stay owned, and the run must terminate (deadlock = no runnable thread)",
                note="interleavings explored at the granularity of the yield points (mutex calls, stream buffer, filter/formatter/sink/callable/clock calls, workload steps) with uniform-random and PCT-style strategies; also simulated: timed/rw/spin locks and sched_yield (timed locks may time out), condition variables, POSIX semaphores (a blocked sem_wait may return EINTR) and fork() as seen by the parent (registered pthread_atfork prepare/parent handlers run in the forking thread while the others log; no process is created); a device I/O error part-way through a run is injected in some runs and then only liveness, mutual exclusion and lock release are judged (badbit discards records by specification); cerr's tie to cout is switched off for the combined sequence sink (outside the property's quantifier); a busy-wait on an atomic without yielding cannot be simulated and is reported as inconclusive (exit 2), never as a verdict",
                tech="deterministic simulation: seeded scheduler over parked real threads, link-time wrapped mutexes, racy simulated stream device"),
    "C10": dict(engine="logsim", level="exploration", ref="3.1",
                text="same runs as C05 (different seeds): below the compile-time minimum no filter evaluation, no record construction, no formatter/sink call, no callable invocation, and the stream type is an empty trivially-destructible class (read with type traits); a statement rejected by the runtime filter reaches neither formatter nor sink and calls no callable; for an emitted record every streamed callable is called exactly once inside the insertion that streamed it",
                note="the type clause is a compile-time fact the simulation only reads; runtime clauses are exploration over sampled plans/schedules with threshold flips in flight",
                tech="deterministic simulation: seeded scheduler + threshold-flip fault injection with call-count oracle"),
    "C06": dict(engine="fvsim", level="fault_enumeration", ref="3.2",
                text="seeded operation histories on fixed_vector<T> (four instrumented element types - copyable, move-only, copy-only, trivially copyable - capacities 0-6, positions taken from the container itself or from another live container, append arguments that are rvalues of the container's own elements) run under ASan/UBSan; for the chosen operation(s) of each history every single fault position (k-th element special-member call throws, k-th allocation fails) is enumerated, plus sampled fault pairs; safety clauses (size<=capacity, no unfilled slot visible, must-raise refusals, refusal leaves state unchanged, no leak / double destruction, injected exception propagates, strong guarantee for single-element ops) are checked after every operation",
                note="sampled histories (not exhaustive); complete only over single-fault positions of the chosen operations; ASan red zones define 'outside the capacity slots'; element types and allocator are simulator stubs, fixed_vector is the real header from /repo's working tree",
                tech="deterministic simulation with enumerated fault injection (element-operation throws, allocation failures) against a reference model"),
    "C07": dict(engine="fvsim", level="exploration", ref="3.2",
                text="fault-free arm of fvsim: seeded histories of constructor/append/insert/emplace/erase/pop/access/copy/move/assign/iteration operations over a pool of 3 containers, compared after every operation (size, capacity, operator[], at, data, forward walk; reverse walks when drawn) with a bounded-sequence reference model; history refinement only (weakest fit of the technique), claimed as the fault-free arm of the engine that decides C06",
                note="seeded sampling, not the exhaustive depth-bounded enumeration the statement mentions (that would be model checking); state of moved-from containers is not prescribed beyond being readable and size<=capacity",
                tech="deterministic simulation: seeded call histories checked step by step against an executable reference model (fault-free arm)"),
    "C18": dict(engine="ownsim", level="fault_enumeration", ref="3.5",
                text="seeded histories over pools of quaint_ptr slots, one std::vector<quaint_ptr> (reallocating) and optional<Payload> objects with five payload types (different sizes and layouts, one with two bases, one that resets its owner from its own destructor), optional<bool>, ADL swap; after every operation the set of payloads reachable through the real owners must equal the set alive (conservation: nothing leaked, nothing destroyed early), destructors must run with the creation type, moved-from/reset pointers must be empty, optionals must copy deeply / empty on assign-empty / raise on read-empty; for the chosen operation(s) every allocation and payload-constructor fault position is enumerated",
                note="sampled histories; complete only over single-fault positions of the chosen operations; self-move-assignment not generated",
                tech="deterministic simulation with enumerated fault injection (allocation failures, throwing payload constructors) against an ownership-table model"),
    "C13": dict(engine="optsim", level="exploration", ref="3.3",
                text="seeded declaration sessions (option/multi_option/toggle on the parser or named groups, short_name/env/default settings, conflicting and repeated declarations over small name/letter alphabets, interleaved with moving the parser object and destroying the source) against a reference table: redeclaration accepted/rejected exactly as the table says, identical object returned, short-name rules, duplicate letters refuse to parse, and every declared name/letter resolves to exactly one option; use of a dangling back-reference after a move is an ASan report",
                note="history refinement against a reference table only - no schedule, clock or fault beyond the move of the parser object (weakest fit, see DESIGN.md 3.3)",
                tech="deterministic simulation: seeded call histories incl. object moves, refinement against an executable reference table, ASan"),
    "C14": dict(engine="optsim", level="exploration", ref="3.3",
                text="seeded sessions of parses on one long-lived parser - successful ones, ones that abort at a late token after earlier tokens already updated options, environment changes between parses, and (enumerated) allocation failures inside a parse - each parse compared with a freshly built twin parser given the same declaration, arguments and environment: same values, counts, lists, positionals, provided flags, or the same exception category",
                note="the twin is the same code: decides history-independence only; allocation-failure arm enumerates every allocation site of one parse per session",
                tech="deterministic simulation: seeded parse histories with injected aborts, environment mutations and enumerated allocation failures, differential against a fresh twin"),
    "C15": dict(engine="usagesim", level="exploration", ref="3.4",
                text="seeded declarations rendered by parser::usage() into 4-6 simulated target streams (fresh and pre-filled string streams, non-seekable stream, stream reporting an offset, tiny/unbuffered/chunked put areas, the real std::cout object with a redirected buffer, failing stream): appended bytes must be identical on every stream; structural clauses (every option once, group and declaration order, synopsis mentions, words preserved, 80 columns) ride along",
                note="stream clause decided by simulation; structural clauses are functions of the declaration alone and only share the generator",
                tech="deterministic simulation of the target stream (I/O layer faults: non-seekable, offset, prior content, short writes) with differential oracle"),
    "C19": dict(engine="dlsim", level="fault_enumeration", ref="3.6",
                text="seeded histories of open/load/copy/call/destroy on dl and symbol objects against a simulated loader (failing opens and lookups with unique diagnostics, NULL-valued symbols, stale pending errors, failing dlclose) and of setenv/unsetenv/get against the real process environment; after every operation: each successful dlopen is closed exactly once, never while any derived object is alive and at the latest when the last is destroyed, no call into a closed library, failures raise dl::exception with the injected diagnostic; allocation faults enumerated inside open/load/copy",
                note="about 7/8 of the runs use the stub loader (handle table + refcounts), 1/8 forward to the real loader and two real shared objects and only count; sampled histories; complete only over single allocation-fault positions of the chosen operations",
                tech="deterministic simulation with a simulated dynamic loader (link-time wrap) and enumerated allocation-fault injection"),
}

NA = {
    "C01": "result of one parse(argv) call is a pure function of (declaration, argv): no schedule, clock, fault or history for a simulator to control",
    "C02": "render-then-parse round trip is an equation between two pure functions of the input",
    "C03": "pure function of (declaration, argv, environment snapshot); getenv cannot fail or change during a single-threaded parse (the temporal part is decided under C14)",
    "C04": "totality / accept-reject boundary over all byte-string inputs: input generation plus sanitizers, nothing for a scheduler or fault injector to vary",
    "C08": "format(fmt) % args is a pure function of its arguments",
    "C11": "toggle counts and environment words are a pure function of (declaration, argv, environment snapshot)",
    "C12": "positional handling is a pure function of (limits, greedy flag, argv, index)",
    "C16": "relations between hash, == and < over pairs/triples of values: pure",
    "C17": "split/join/replace_all/starts_with are pure; the empty-pattern non-termination is triggered by an input, not by a fault or schedule",
    "C20": "iteration adaptors are pure; the temporaries-lifetime clause is settled by language rules plus ASan on a few instantiations, not by any sequence of events a simulator could order",
}


def main():
    built = [e for e in ENGINE_TEXT if os.path.isdir(os.path.join(VERIF, "sim", e))]
    claimed = [p for p, c in sorted(CHECKS.items()) if c["engine"] in built]
    pending = [p for p, c in sorted(CHECKS.items()) if c["engine"] not in built]
    hook_commits = []
    hooks_file = os.path.join(VERIF, "hooks_commits.txt")
    if os.path.exists(hooks_file):
        hook_commits = [l.split()[0] for l in open(hooks_file) if l.strip() and not l.startswith("#")]
    m = {
        "version": 1,
        "setup_cmd": "/usr/bin/python3 bin/check.py --setup",
        "hooks": {
            "guard": "NITRO_VERIF",
            "enable": "no hook in /repo is needed: every seam is a template parameter nitro already offers (Record/Formatter/Sink/Filter/Clock, element and payload types, the std::ostream& argument of usage()) or is attached at link time to the harness only (-Wl,--wrap=pthread_mutex_*, --wrap=dlopen/dlsym/dlclose/dlerror, replacement operator new); harnesses are compiled with -DNITRO_VERIF from /repo's working tree by bin/check.py",
            "baseline_off_cmd": "cmake --build /repo/_build && ctest --test-dir /repo/_build -j8 --timeout 900",
            "source_commits": hook_commits,
            "add_only": True,
        },
        "engines": [{"name": e, "path": "sim/" + e,
                     "serves_properties": [p for p in claimed if CHECKS[p]["engine"] == e],
                     "kind_free_text": ENGINE_TEXT[e]} for e in built],
        "checks": [{
            "property_id": p,
            "engine": CHECKS[p]["engine"],
            "quick_cmd": "/usr/bin/python3 bin/check.py %s --tier quick" % p,
            "thorough_cmd": "/usr/bin/python3 bin/check.py %s --tier thorough" % p,
            "evidence_file": "evidence/%s.json" % p,
            "replay_cmd_template": "/usr/bin/python3 bin/check.py %s --replay {path}" % p,
            "level_claimed": {"category": CHECKS[p]["level"], "text": CHECKS[p]["text"], "design_ref": CHECKS[p]["ref"]},
            "level_note": CHECKS[p]["note"],
            "technique": CHECKS[p]["tech"],
        } for p in claimed],
        "not_applicable": [{"property_id": p, "reason": r} for p, r in sorted(NA.items())] +
                          [{"property_id": p, "reason": "claimed in DESIGN.md (%s) but its engine is not built yet in this commit; it moves to checks when the engine lands" % CHECKS[p]["engine"]} for p in pending],
        "notes": "Driver: bin/check.py (stdlib python, /usr/bin/python3). Builds are keyed by a hash of /repo/include, /repo/src and the harness sources and always come from /repo's working tree. Exit 2 means the harness misbehaved (never a property verdict). known_findings.json lists repaired (fixed:) and open defects; seeded/ holds independently written breaking changes and which check catches them; bin/selftest.py validates determinism, replay and reach; bin/regress.py runs the checks against every seeded (must be caught) and benign (must stay silent) change; a violation that depends on state the code under test keeps across runs is reproduced in fresh processes (plan alone, else a run-range replay file).",
    }
    with open(os.path.join(VERIF, "MANIFEST.json"), "w") as f:
        json.dump(m, f, indent=1)
        f.write("\n")
    print("claimed:", " ".join(claimed), "| pending:", " ".join(pending))


if __name__ == "__main__":
    main()
