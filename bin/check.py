#!/usr/bin/python3
"""Driver for the nitro deterministic-simulation checks (DESIGN.md section 2.8, 5).

  check.py --setup                         build every engine once
  check.py <id> --tier quick|thorough      run the check for one property
  check.py <id> --replay <file>            replay one file in a fresh process

Exit 0: property held on everything explored (KNOWN-FINDING lines may be printed).
Exit 1: at least one gated `VIOLATION property=<id> replay=<path>` line.
Exit 2: the harness itself misbehaved (never a property verdict).
Standard library only.
"""
import argparse
import glob
import hashlib
import json
import os
import re
import shutil
import subprocess
import sys
import threading
import time

VERIF = os.path.dirname(os.path.dirname(os.path.abspath(__file__)))
REPO = os.environ.get("NITRO_REPO", "/repo")
BUILD = os.path.join(VERIF, "build")
NCPU = min(16, os.cpu_count() or 4)

CXX = "g++"
CXXFLAGS = ["-std=c++17", "-g", "-fsanitize=address,undefined",
            "-fno-sanitize-recover=undefined", "-fno-omit-frame-pointer",
            "-DNITRO_VERIF", "-I" + os.path.join(REPO, "include")]
LDFLAGS = ["-fsanitize=address,undefined", "-pthread", "-ldl"]

SEVS = ["trace", "debug", "info", "warn", "error", "fatal"]

ENGINES = {
    "fvsim": dict(src=["sim/fvsim/fvsim.cpp"], nitro_src=[], ld=[], variants=[("", [])],
                  probes=[("FV_HAVE_INSERT_LVALUE", "sim/fvsim/probe_insert_lvalue.cpp"),
                          ("FV_HAVE_LIST_ASSIGN", "sim/fvsim/probe_list_assign.cpp")]),
    "ownsim": dict(src=["sim/ownsim/ownsim.cpp"], nitro_src=[], ld=[], variants=[("", [])], probes=[]),
    "optsim": dict(src=["sim/optsim/optsim.cpp"], opt="-O2",
                   nitro_src=["src/options/parser.cpp", "src/options/group.cpp", "src/options/option.cpp",
                              "src/options/multi_option.cpp", "src/options/toggle.cpp", "src/env/get.cpp"],
                   ld=[], variants=[("", [])], probes=[]),
    "usagesim": dict(src=["sim/usagesim/usagesim.cpp"], opt="-O2",
                     nitro_src=["src/options/parser.cpp", "src/options/group.cpp", "src/options/option.cpp",
                                "src/options/multi_option.cpp", "src/options/toggle.cpp", "src/env/get.cpp"],
                     ld=[], variants=[("", [])], probes=[]),
    "dlsim": dict(src=["sim/dlsim/dlsim.cpp"], nitro_src=["src/env/get.cpp"],
                  ld=["-Wl,--wrap=dlopen,--wrap=dlsym,--wrap=dlclose,--wrap=dlerror", "-rdynamic", "-Wl,--defsym=sim_null=0"],
                  variants=[("", [])], probes=[],
                  shared_libs=[("libsimrealA.so", "sim/dlsim/testlib.c", ["-DLIBID=0"]),
                               ("libsimrealB.so", "sim/dlsim/testlib.c", ["-DLIBID=1"])]),
    "logsim": dict(src=["sim/logsim/logsim.cpp", "sim/logsim/logsim_cat1.cpp", "sim/logsim/logsim_cat2.cpp", "sim/logsim/logsim_cat3.cpp"],
                   nitro_src=[], opt="-O0", recycle=300,
                   ld=["-Wl,--wrap=pthread_mutex_lock,--wrap=pthread_mutex_unlock,--wrap=pthread_mutex_trylock,"
                       "--wrap=pthread_mutex_timedlock,--wrap=pthread_mutex_clocklock,"
                       "--wrap=pthread_rwlock_rdlock,--wrap=pthread_rwlock_wrlock,--wrap=pthread_rwlock_tryrdlock,"
                       "--wrap=pthread_rwlock_trywrlock,--wrap=pthread_rwlock_unlock,"
                       "--wrap=pthread_spin_lock,--wrap=pthread_spin_trylock,--wrap=pthread_spin_unlock,--wrap=sched_yield,"
                       "--wrap=__cxa_guard_acquire,--wrap=__cxa_guard_release,--wrap=__cxa_guard_abort,"
                       "--wrap=flockfile,--wrap=funlockfile,--wrap=ftrylockfile"],
                   variants=[(s, ["-DNITRO_LOG_MIN_SEVERITY=" + s, "-DLOGSIM_MIN=%d" % i])
                             for i, s in enumerate(SEVS)] +
                            [("atomics", ["-DNITRO_LOG_MIN_SEVERITY=trace", "-DLOGSIM_MIN=0", "-DLOGSIM_ATOMICS=1"])],
                   # the "atomics" variant is compiled with -fsanitize=thread but linked against
                   # sim/logsim/atomics_rt.cpp instead of the TSan runtime: atomic operations of the
                   # code under test become scheduler yield points (no ASan in this variant)
                   variant_build={"atomics": dict(san="-fsanitize=thread,undefined", ld_san="-fsanitize=undefined",
                                                  extra=["sim/logsim/atomics_rt.cpp"])},
                   variant_weight={"atomics": 1.0}, variant_recycle={"atomics": 1200}, spin_fallback="atomics",
                   probes=[("LS_MIN_AFTER_HEADER", "sim/logsim/probe_min_after_header.cpp"),
                           ("LS_HAVE_CALLABLE_LIT", "sim/logsim/probe_callable_lit.cpp"),
                           ("LS_HAVE_CALLABLE_FN", "sim/logsim/probe_callable_fn.cpp"),
                           ("LS_HAVE_CALLABLE_OBJ", "sim/logsim/probe_callable_obj.cpp")]),
}

# runs per tier are fixed counts (the explored seed set must not depend on machine load)
PROPS = {
    "C06": dict(engine="fvsim", level="fault_enumeration", quick=300000, thorough=6000000,
                design="3.2"),
    "C07": dict(engine="fvsim", level="exploration", quick=800000, thorough=40000000,
                design="3.2"),
    "C18": dict(engine="ownsim", level="fault_enumeration", quick=400000, thorough=20000000,
                design="3.5"),
    "C13": dict(engine="optsim", level="exploration", quick=50000, thorough=1500000, design="3.3"),
    "C14": dict(engine="optsim", level="exploration", quick=10000, thorough=60000, design="3.3"),
    "C15": dict(engine="usagesim", level="exploration", quick=80000, thorough=6000000, design="3.4"),
    "C19": dict(engine="dlsim", level="fault_enumeration", quick=400000, thorough=20000000,
                design="3.6"),
    "C05": dict(engine="logsim", level="exploration", quick=128000, thorough=4000000, design="3.1"),
    "C09": dict(engine="logsim", level="exploration", quick=128000, thorough=4000000, design="3.1"),
    "C10": dict(engine="logsim", level="exploration", quick=128000, thorough=4000000, design="3.1"),
}
QUICK_WALL_CAP = 150      # seconds of search; a slow machine ends the batch early
THOROUGH_WALL_CAP = 2400


def log(*a):
    print(*a, flush=True)


def sha_files(paths):
    h = hashlib.sha256()
    for p in sorted(paths):
        h.update(p.encode())
        try:
            with open(p, "rb") as f:
                h.update(f.read())
        except OSError:
            h.update(b"<missing>")
    return h.hexdigest()[:16]


def repo_sources():
    out = []
    for root in ("include", "src"):
        for d, _, files in os.walk(os.path.join(REPO, root)):
            for f in files:
                out.append(os.path.join(d, f))
    return out


def run_cmd(cmd, **kw):
    return subprocess.run(cmd, stdout=subprocess.PIPE, stderr=subprocess.PIPE, text=True, **kw)


def prune(parent, keep, protect):
    """Keep the `keep` most recently used build directories under parent (several check.py
    processes may share /verif/build: nothing another process might be using is removed)."""
    try:
        entries = [os.path.join(parent, x) for x in os.listdir(parent)]
    except OSError:
        return
    now = time.time()
    dirs = [x for x in entries if os.path.isdir(x) and x != protect]
    # unfinished temporary directories of dead builds
    for x in dirs:
        if ".tmp" in os.path.basename(x) and now - os.path.getmtime(x) > 3600:
            shutil.rmtree(x, ignore_errors=True)
    done = sorted([x for x in dirs if ".tmp" not in os.path.basename(x)], key=os.path.getmtime, reverse=True)
    for x in done[keep - 1:]:
        if now - os.path.getmtime(x) > 600:
            shutil.rmtree(x, ignore_errors=True)


def build_core(flags=None):
    """Compiles sim_main.cpp once per content hash; returns (object path, error text or None)."""
    flags = flags or CXXFLAGS
    srcs = [os.path.join(VERIF, "sim/core/sim_main.cpp"), os.path.join(VERIF, "sim/core/sim.hpp")]
    key = sha_files(srcs) + hashlib.sha256(" ".join(flags).encode()).hexdigest()[:6]
    d = os.path.join(BUILD, "core", key)
    obj = os.path.join(d, "sim_main.o")
    if os.path.exists(obj):
        os.utime(d, None)
        return obj, None
    os.makedirs(d, exist_ok=True)
    tmp = os.path.join(d, "sim_main.%d.tmp.o" % os.getpid())
    cmd = [CXX] + flags + ["-O1", "-c", srcs[0], "-o", tmp]
    r = run_cmd(cmd)
    if r.returncode != 0:
        return None, r.stdout + r.stderr
    os.replace(tmp, obj)
    prune(os.path.join(BUILD, "core"), 4, d)
    return obj, None


def build_engine(engine):
    """Rebuild the engine's binaries from /repo's working tree if anything changed.
    Returns (list of (variant, binary), probe results)."""
    spec = ENGINES[engine]
    edir = os.path.join(VERIF, "sim", engine)
    harness = [os.path.join(edir, f) for f in os.listdir(edir)] + \
              [os.path.join(VERIF, "sim/core/sim.hpp"), os.path.join(VERIF, "sim/core/sim_main.cpp"),
               os.path.abspath(__file__)]
    key = sha_files(repo_sources() + harness)
    final = os.path.join(BUILD, engine, key)
    stamp = os.path.join(final, "built.json")

    def load():
        with open(stamp) as f:
            st = json.load(f)
        bins = [(v, os.path.join(final, b)) for v, b in st["bins"]]
        if all(os.path.exists(b) for _, b in bins):
            os.utime(final, None)
            return bins, st["probes"]
        return None

    if os.path.exists(stamp):
        got = load()
        if got:
            return got
    t0 = time.time()
    os.makedirs(os.path.join(BUILD, engine), exist_ok=True)
    d = final + ".tmp%d" % os.getpid()
    shutil.rmtree(d, ignore_errors=True)
    os.makedirs(d)
    # the core object is compiled concurrently with the engine's translation units
    core_result = {}
    core_thread = threading.Thread(target=lambda: core_result.update(zip(("obj", "err"), build_core())))
    core_thread.start()
    # op-availability probes: tiny translation units that may legitimately not compile
    probes = {}
    probe_procs = []
    for macro, src in spec["probes"]:
        cmd = [CXX] + CXXFLAGS + ["-fsyntax-only", os.path.join(VERIF, src)]
        probe_procs.append((macro, subprocess.Popen(cmd, stdout=subprocess.DEVNULL, stderr=subprocess.DEVNULL)))
    for macro, p in probe_procs:
        probes[macro] = 1 if p.wait() == 0 else 0
    defs = ["-D%s=%d" % (m, v) for m, v in probes.items()] + [spec.get("opt", "-O1")]
    procs = []
    nitro_objs = []
    for i, ns in enumerate(spec["nitro_src"]):
        obj = os.path.join(d, "nitro_%d.o" % i)
        nitro_objs.append(obj)
        cmd = [CXX] + CXXFLAGS + [spec.get("opt", "-O1"), "-c", os.path.join(REPO, ns), "-o", obj]
        procs.append((ns, subprocess.Popen(cmd, stdout=subprocess.PIPE, stderr=subprocess.STDOUT, text=True)))
    var_objs = []
    vbuild = spec.get("variant_build", {})
    alt_core = {}
    alt_threads = []
    for vname, vflags in spec["variants"]:
        objs = []
        vb = vbuild.get(vname)
        cflags = CXXFLAGS
        if vb:
            cflags = [vb["san"] if f.startswith("-fsanitize=") else f for f in CXXFLAGS]
            core_flags = [vb["ld_san"] if f.startswith("-fsanitize=") else f for f in CXXFLAGS]
            th = threading.Thread(target=lambda v=vname, cf=core_flags: alt_core.__setitem__(v, build_core(cf)))
            th.start()
            alt_threads.append(th)
            for j, src in enumerate(vb["extra"]):
                obj = os.path.join(d, "extra_%s_%d.o" % (vname, j))
                objs.append(obj)
                cmd = [CXX, "-std=c++17", "-g", "-O2", "-c", os.path.join(VERIF, src), "-o", obj]
                procs.append((src + ":" + vname, subprocess.Popen(cmd, stdout=subprocess.PIPE, stderr=subprocess.STDOUT, text=True)))
        for j, src in enumerate(spec["src"]):
            obj = os.path.join(d, "eng_%s_%d.o" % (vname or "x", j))
            objs.append(obj)
            vdefs = [vb["opt"] if (vb and vb.get("opt") and f.startswith("-O")) else f for f in defs]
            cmd = [CXX] + cflags + vdefs + vflags + ["-c", os.path.join(VERIF, src), "-o", obj]
            procs.append((src + ":" + vname, subprocess.Popen(cmd, stdout=subprocess.PIPE, stderr=subprocess.STDOUT, text=True)))
        var_objs.append((vname, objs))
    failed = []
    for name, p in procs:
        out, _ = p.communicate()
        if p.returncode != 0:
            failed.append((name, out))
    core_thread.join()
    for th in alt_threads:
        th.join()
    if core_result.get("obj") is None:
        failed.append(("core", core_result.get("err") or ""))
    for v, (cobj, cerr) in alt_core.items():
        if cobj is None:
            failed.append(("core:" + v, cerr or ""))
    if failed:
        for name, out in failed:
            sys.stderr.write("BUILD FAILED: %s\n%s\n" % (name, out[-6000:]))
        shutil.rmtree(d, ignore_errors=True)
        return None, probes
    names = []
    for vname, objs in var_objs:
        bname = engine + ("_" + vname if vname else "")
        vb = vbuild.get(vname)
        core_obj = alt_core[vname][0] if vb else core_result["obj"]
        ldflags = [vb["ld_san"] if f.startswith("-fsanitize=") else f for f in LDFLAGS] if vb else LDFLAGS
        cmd = [CXX] + objs + nitro_objs + [core_obj] + ldflags + spec["ld"] + ["-o", os.path.join(d, bname)]
        r = run_cmd(cmd)
        if r.returncode != 0:
            sys.stderr.write("LINK FAILED: %s\n%s\n" % (bname, r.stderr[-4000:]))
            shutil.rmtree(d, ignore_errors=True)
            return None, probes
        names.append((vname, bname))
    for lname, lsrc, lflags in spec.get("shared_libs", []):
        r = run_cmd(["gcc", "-shared", "-fPIC", "-O1", "-Wl,--defsym=sim_null=0"] + lflags + [os.path.join(VERIF, lsrc), "-o", os.path.join(d, lname)])
        if r.returncode != 0:
            sys.stderr.write("SHARED LIB FAILED: %s\n%s\n" % (lname, r.stderr[-2000:]))
            shutil.rmtree(d, ignore_errors=True)
            return None, probes
    for f in os.listdir(d):
        if f.endswith(".o"):
            os.unlink(os.path.join(d, f))
    with open(os.path.join(d, "built.json"), "w") as f:
        json.dump({"bins": names, "probes": probes, "build_s": round(time.time() - t0, 1)}, f)
    try:
        os.rename(d, final)            # atomic publication
    except OSError:
        shutil.rmtree(d, ignore_errors=True)   # somebody else published the same build first
    prune(os.path.join(BUILD, engine), 3, final)
    got = load()
    if got:
        return got
    return None, probes


def _words(text, maxw):
    line = text.split("\n", 1)[0]
    return "-".join(re.findall(r"[A-Za-z0-9_]+", line)[:maxw])


def classify_stderr(err, rc):
    """Must stay identical to Tester::classify in sim/core/sim_main.cpp."""
    if "SIM-DEADLOCK" in err:
        return "deadlock"
    if "SIM-STEPBUDGET" in err:
        return "step-budget"
    i = err.find("runtime error: ")
    if i >= 0:
        return "ubsan:" + _words(err[i + 15:], 4)
    i = err.find("ERROR: AddressSanitizer: ")
    if i >= 0:
        rest = err[i + 25:]
        if rest.startswith("attempting "):
            rest = rest[11:]
        tok = re.split(r"[ \n]", rest, 1)[0]
        return "asan:" + re.sub(r"[^A-Za-z0-9_\-]", "_", tok)
    if "SIM-HANG" in err:
        return "hang"
    if rc is not None and rc < 0:
        return "crash:signal%d" % (-rc)
    if rc == 77:
        return "asan:unknown"
    return "crash:exit%s" % rc


def load_known():
    p = os.path.join(VERIF, "known_findings.json")
    if not os.path.exists(p):
        return []
    with open(p) as f:
        return json.load(f).get("findings", [])


def match_known(known, prop, cls, sig):
    for k in known:
        if k.get("status") != "open" or k.get("property") != prop:
            continue
        if k.get("class") != cls:
            continue
        ks = k.get("sig")
        if ks is None or ks == sig:
            return k
    return None


VIOL_RE = re.compile(r'^VIOL prop=(\S+) class=(\S+) sig="((?:[^"\\]|\\.)*)" ops=(\d+) execs=(\d+) replay=(\S+) run=(-?\d+)')
NONDET_RE = re.compile(r'^NONDET run=(\d+) from=(\d+) class=(\S+) sig="((?:[^"\\]|\\.)*)" plan=(\S+)')
AGAIN_RE = re.compile(r'^VIOL-AGAIN class=(\S+) sig="((?:[^"\\]|\\.)*)"')


class Batch:
    def __init__(self, prop, tier, seed):
        self.prop = prop
        self.tier = tier
        self.seed = seed
        self.spec = PROPS[prop]
        self.engine = self.spec["engine"]
        self.lock = threading.Lock()
        self.viol = {}        # (cls, sig) -> dict(replay, ops, count)
        self.stats = []
        self.harness_errors = []
        self.crash_classes = {}
        self.deaths = 0
        self.abandoned = []
        self.hashfiles = []
        self.nondet = []
        self.outdir = os.path.join(os.environ.get("VERIF_REPLAY_DIR", os.path.join(VERIF, "replays")), prop)
        self.scratch = os.path.join(BUILD, "scratch", prop + "-" + tier)
        self.deadline = 0
        self.stop = False           # set when the batch is being abandoned (see spin_fallback)
        self.spin_fallback = False  # an ASan-built variant hung and an `atomics` variant exists
        self.fallback_variant = None

    def add_viol(self, cls, sig, replay, ops, again=False, origin=None):
        with self.lock:
            key = (cls, sig)
            v = self.viol.get(key)
            if v is None:
                self.viol[key] = dict(replay=replay, ops=ops, count=1, origin=origin)
            else:
                v["count"] += 1
                if replay and (v["replay"] is None or ops < v["ops"]):
                    v["replay"] = replay
                    v["ops"] = ops
                    v["origin"] = origin

    def worker(self, binary, wid, a, b, extra):
        chunk = ENGINES[self.engine].get("recycle")
        for v, n in ENGINES[self.engine].get("variant_recycle", {}).items():
            if os.path.basename(binary).endswith("_" + v):
                chunk = n
        if chunk:
            for c in range(a, b, chunk):
                if self.stop:
                    return
                self.worker_chunk(binary, wid, c, min(b, c + chunk), extra)
        else:
            self.worker_chunk(binary, wid, a, b, extra)

    def worker_chunk(self, binary, wid, a, b, extra):
        cur = a
        restarts = 0
        while cur < b and not self.stop:
            hashfile = os.path.join(self.scratch, "h_%s_%d_%d.bin" % (os.path.basename(binary), wid, cur))
            cmd = [binary, "--prop", self.prop, "--seed", str(self.seed), "--tier", self.tier,
                   "--from", str(cur), "--to", str(b), "--outdir", self.outdir,
                   "--hashfile", hashfile, "--deadline", str(int(self.deadline))] + extra
            p = subprocess.Popen(cmd, stdout=subprocess.PIPE, stderr=subprocess.PIPE, text=True, errors="replace")
            last = cur - 1
            done = False
            mystats = None
            errbuf = []
            t = threading.Thread(target=lambda: errbuf.append(p.stderr.read()))
            t.start()
            for line in p.stdout:
                line = line.rstrip("\n")
                if line.startswith("BEGIN "):
                    last = int(line[6:])
                elif line.startswith("VIOL "):
                    m = VIOL_RE.match(line)
                    if m:
                        mo = re.search(r" from=(\d+) orig=(\S+)", line)
                        origin = dict(binary=binary, run=int(m.group(7)), start=int(mo.group(1)), plan=mo.group(2), extra=extra) if mo else None
                        self.add_viol(m.group(2), m.group(3), m.group(6), int(m.group(4)), origin=origin)
                    else:
                        self.harness_errors.append("unparsable: " + line)
                elif line.startswith("VIOL-AGAIN"):
                    m = AGAIN_RE.match(line)
                    if m:
                        self.add_viol(m.group(1), m.group(2), None, 1 << 30)
                elif line.startswith("STATS "):
                    try:
                        mystats = json.loads(line[6:])
                    except ValueError as e:
                        self.harness_errors.append("bad STATS: %s" % e)
                elif line.startswith("HARNESS-NONDETERMINISM"):
                    self.harness_errors.append(line)
                elif line.startswith("NONDET "):
                    m = NONDET_RE.match(line)
                    if m:
                        with self.lock:
                            self.nondet.append(dict(binary=binary, run=int(m.group(1)), start=int(m.group(2)), cls=m.group(3),
                                                    sig=m.group(4), plan=m.group(5), extra=extra))
                    else:
                        self.harness_errors.append("unparsable: " + line)
                elif line.startswith("DONE "):
                    done = True
            rc = p.wait()
            t.join()
            with self.lock:
                if mystats is not None:
                    self.stats.append(mystats)
                if os.path.exists(hashfile):
                    self.hashfiles.append(hashfile)
            err = errbuf[0] if errbuf else ""
            if done and rc == 0:
                return
            if rc == 2:
                self.harness_errors.append("worker exit 2: " + err[-500:])
                return
            # the worker died inside run `last`: sanitizer report, signal or watchdog
            cls = self.prop + "/" + classify_stderr(err, rc)
            if cls.endswith("/hang") and self.fallback_variant and not os.path.basename(binary).endswith("_" + self.fallback_variant):
                # A thread of the code under test blocks or spins where this build has no seam (a
                # busy-wait on an atomic).  The variant whose atomic operations are yield points can
                # schedule such code: abandon this batch and repeat it with that variant alone.
                with self.lock:
                    self.spin_fallback = True
                    self.stop = True
                return
            with self.lock:
                self.deaths += 1
                first = cls not in self.crash_classes
                if first:
                    self.crash_classes[cls] = dict(run=last, stderr=err[-3000:], count=1)
                else:
                    self.crash_classes[cls]["count"] += 1
            if first and last >= cur:
                self.isolate_and_minimise(binary, last, cls, extra, start=cur)
            elif last >= cur:
                self.add_viol(cls, "crash", None, 1 << 30)
            restarts += 1
            cur = max(last + 1, cur + 1)
            if restarts > 12:
                with self.lock:
                    self.abandoned.append((cur, b))
                return

    def range_replay_file(self, binary, a, run, cls, sig):
        """A replay file that re-executes the runs a..run of this batch in one fresh process."""
        rf = os.path.join(self.scratch, "range_%d_%d.replay" % (a, run))
        vname = os.path.basename(binary).split("_")[-1]
        knob = "knob min=%d\n" % SEVS.index(vname) if vname in SEVS else ("knob min=0\nknob atomics=1\n" if vname == "atomics" else "")
        with open(rf, "w") as f:
            f.write("nitro-verif-replay 1\nengine %s property %s seed %d run %d tier %s\n%srange from=%d to=%d\nexpect class=%s at_op=-1 sig=\"%s\" detail=\"\"\n"
                    % (self.engine, self.prop, self.seed, run, self.tier, knob, a, run, cls, sig))
        return rf

    def isolate_and_minimise(self, binary, run, cls, extra, start=None):
        planfile = os.path.join(self.scratch, "crash_%s_%d.plan" % (os.path.basename(binary), run))
        cmd = [binary, "--prop", self.prop, "--seed", str(self.seed), "--tier", self.tier,
               "--from", str(run), "--to", str(run + 1), "--outdir", self.outdir, "--isolate",
               "--planfile", planfile] + extra
        r = run_cmd(cmd, timeout=120)
        cls2 = self.prop + "/" + classify_stderr(r.stderr, r.returncode)
        if r.returncode == 0 or not os.path.exists(planfile):
            # The run alone is clean in a fresh process: the death needed what earlier runs of that
            # worker left behind in the code under test (an initialised static, a cache).  Try the
            # range of runs the worker had executed, twice, in fresh processes.
            if start is not None and start < run:
                rf = self.range_replay_file(binary, start, run, cls, "crash")
                hits = 0
                for _ in range(2):
                    rr = run_cmd([binary, "--replay", rf, "--prop", self.prop] + extra, timeout=900)
                    if rr.returncode not in (0, 1, 2, 3) and self.prop + "/" + classify_stderr(rr.stderr, rr.returncode) == cls:
                        hits += 1
                if hits == 2:
                    out = os.path.join(self.outdir, "%s-crash-range-s%dr%d.replay" % (re.sub(r"[^A-Za-z0-9_\-]", "_", cls.split("/", 1)[1]), self.seed, run))
                    shutil.copy(rf, out)
                    self.add_viol(cls, "crash", out, 1 << 20)
                    return
            self.harness_errors.append("crash in run %d (%s) did not reproduce in isolation (rc=%s)" % (run, cls, r.returncode))
            return
        out = os.path.join(self.outdir, "%s-crash-s%dr%d.replay" % (re.sub(r"[^A-Za-z0-9_\-]", "_", cls2.split("/", 1)[1]), self.seed, run))
        cmd = [binary, "--prop", self.prop, "--tier", self.tier, "--minimise-crash", planfile, "--out", out]
        try:
            # a run that hangs or exhausts the step budget costs up to a minute per execution
            r2 = run_cmd(cmd, timeout=150 if cls2.endswith(("/hang", "/step-budget")) else 600)
        except subprocess.TimeoutExpired:
            self.harness_errors.append("crash minimisation timed out for run %d" % run)
            return
        ok = False
        for line in r2.stdout.splitlines():
            m = VIOL_RE.match(line)
            if m:
                self.add_viol(m.group(2), m.group(3), m.group(6), int(m.group(4)))
                ok = True
            elif line.startswith("HARNESS-NONDETERMINISM") or line.startswith("CRASH-NOT-REPRODUCED"):
                self.harness_errors.append(line + " (run %d)" % run)
        if not ok and r2.returncode != 2:
            self.harness_errors.append("crash minimisation produced nothing for run %d: %s" % (run, r2.stdout[-300:] + r2.stderr[-300:]))


def resolve_nondet(batch):
    """A violation whose in-process re-execution differed.  Settle it in fresh processes: first the
    plan alone (forked children, clean state each), then the range of runs that preceded it."""
    done = set()
    for nd in batch.nondet:
        key = (nd["cls"], nd["sig"])
        if key in done or (key in batch.viol and batch.viol[key]["replay"]):
            continue
        out = os.path.join(batch.outdir, "%s-fresh-s%dr%d.replay" % (re.sub(r"[^A-Za-z0-9_\-]", "_", nd["cls"].split("/", 1)[1]), batch.seed, nd["run"]))
        r = run_cmd([nd["binary"], "--prop", batch.prop, "--tier", batch.tier, "--minimise-crash", nd["plan"], "--out", out], timeout=900)
        got = None
        for line in r.stdout.splitlines():
            m = VIOL_RE.match(line)
            if m:
                got = m
        if got and got.group(2) == nd["cls"]:
            batch.add_viol(got.group(2), got.group(3), got.group(6), int(got.group(4)))
            done.add(key)
            continue
        # the plan alone is clean in a fresh process: try the run range of that worker chunk
        def range_hits(a):
            rf = batch.range_replay_file(nd["binary"], a, nd["run"], nd["cls"], nd["sig"])
            rr = run_cmd([nd["binary"], "--replay", rf, "--prop", batch.prop] + nd["extra"], timeout=900)
            return rr.returncode == 1, rf
        ok1, _ = range_hits(nd["start"])
        ok2, _ = range_hits(nd["start"])
        if not (ok1 and ok2):
            batch.harness_errors.append("HARNESS-NONDETERMINISM: run %d class %s reproduces neither from its plan nor from the run range %d..%d in fresh processes"
                                        % (nd["run"], nd["cls"], nd["start"], nd["run"]))
            done.add(key)
            continue
        lo, hi = nd["start"], nd["run"]   # latest start that still reproduces
        while lo < hi:
            mid = (lo + hi + 1) // 2
            if range_hits(mid)[0]:
                lo = mid
            else:
                hi = mid - 1
        _, rf = range_hits(lo)
        final = os.path.join(batch.outdir, "%s-range-s%dr%d.replay" % (re.sub(r"[^A-Za-z0-9_\-]", "_", nd["cls"].split("/", 1)[1]), batch.seed, nd["run"]))
        shutil.copy(rf, final)
        batch.add_viol(nd["cls"], nd["sig"], final, nd["run"] - lo + 1)
        done.add(key)


def gate_replay(binary, prop, replay, want_cls, want_sig):
    """Fresh-process replay; True iff the same violation class is observed again."""
    r = run_cmd([binary, "--replay", replay, "--prop", prop], timeout=900)
    if "RANGE-DONE" in r.stdout:
        return r.returncode == 1 and "RANGE-DONE hit=1" in r.stdout, r
    if r.returncode == 1:
        m = re.search(r'REPLAY violation class=(\S+) at_op=(-?\d+) sig="((?:[^"\\]|\\.)*)"', r.stdout)
        return bool(m) and m.group(1) == want_cls and (want_sig == "crash" or m.group(3) == want_sig), r
    if r.returncode in (0, 3, 2):
        return False, r
    cls = prop + "/" + classify_stderr(r.stderr, r.returncode)
    return cls == want_cls, r


def pick_binary(bins, replay_text=None):
    if replay_text:
        if re.search(r"^knob atomics=1", replay_text, re.M):
            for v, b in bins:
                if v == "atomics":
                    return b
        m = re.search(r"^knob min=(\d+)", replay_text, re.M)
        if m and len(bins) > 1:
            return bins[int(m.group(1)) % len(bins)][1]
    return bins[0][1]


def run_check(prop, tier, seed):
    t_start = time.time()
    spec = PROPS[prop]
    engine = spec["engine"]
    bins, probes = build_engine(engine)
    if bins is None:
        log("HARNESS-ERROR: build of engine %s against %s failed" % (engine, REPO))
        return 2
    t_built = time.time()
    known = load_known()
    avoid = ";".join(sorted(set(k["sig"] for k in known if k.get("status") == "open" and k.get("property") == prop and k.get("sig"))))
    extra = ["--avoid", avoid] if avoid else []
    total = int(os.environ.get("VERIF_RUNS", spec[tier]))
    fallback = ENGINES[engine].get("spin_fallback")
    if fallback and fallback not in [v for v, _ in bins]:
        fallback = None

    def run_batch(use_bins, note_fallback):
        batch = Batch(prop, tier, seed)
        batch.fallback_variant = note_fallback
        shutil.rmtree(batch.outdir, ignore_errors=True)
        shutil.rmtree(batch.scratch, ignore_errors=True)
        os.makedirs(batch.outdir, exist_ok=True)
        os.makedirs(batch.scratch, exist_ok=True)
        batch.deadline = time.time() + (QUICK_WALL_CAP if tier == "quick" else THOROUGH_WALL_CAP)
        # split the run-index range over NCPU workers; variants (logsim minima) interleave
        threads = []
        nb = len(use_bins)
        assign = []
        for w in range(NCPU):
            vname, binary = use_bins[w % nb]
            if nb > 1:
                # every variant must see every part of the index space over time: rotate by seed
                vname, binary = use_bins[(w + seed) % nb]
            assign.append((vname, binary))
        # a slower variant gets a proportionally shorter slice of the index range
        weights = [ENGINES[engine].get("variant_weight", {}).get(v, 1.0) if nb > 1 else 1.0 for v, _ in assign]
        wsum = sum(weights)
        cum = 0.0
        a = 0
        for w in range(NCPU):
            cum += weights[w]
            b = total if w == NCPU - 1 else max(a, int(round(total * cum / wsum)))
            th = threading.Thread(target=batch.worker, args=(assign[w][1], w, a, b, extra))
            th.start()
            threads.append(th)
            a = b
        for th in threads:
            th.join()
        return batch

    batch = run_batch(bins, fallback)
    fell_back = False
    if batch.spin_fallback:
        log("note: a run blocked or spun where the ASan-built variants have no scheduler seam; repeating the batch "
            "with the `%s` variant alone (atomic operations are yield points there)" % fallback)
        fell_back = True
        batch = run_batch([(v, b) for v, b in bins if v == fallback], None)
    resolve_nondet(batch)
    t_search = time.time()

    # ---- merge counters
    counters = {}
    evals = runs = steps = simtime = 0
    samples = []
    for s in batch.stats:
        evals += s["evaluations"]
        runs += s["runs"]
        steps += s["steps"]
        simtime += s["simulated_time_ns"]
        for k, v in s["counters"].items():
            counters[k] = counters.get(k, 0) + v
        for x in s["samples"]:
            if len(samples) < 3 and x not in samples:
                samples.append(x)
    distinct = 0
    capped = any(s.get("hash_set_capped") for s in batch.stats)
    if batch.hashfiles:
        r = run_cmd([bins[0][1], "--merge-hashes"] + batch.hashfiles)
        m = re.search(r"DISTINCT (\d+)", r.stdout)
        if m:
            distinct = int(m.group(1))
        else:
            batch.harness_errors.append("hash merge failed: " + r.stderr[-300:])

    # ---- gate, classify against known findings
    rc = 0
    violations = 0
    known_seen = []
    reported = []
    for (cls, sig), v in sorted(batch.viol.items()):
        if v["replay"] is None:
            batch.harness_errors.append("violation class %s sig %s was counted but never minimised" % (cls, sig))
            continue
        if engine == "logsim" and cls.endswith("/hang"):
            # no scheduler step for 30 s: the code blocks or spins on something the simulator does not
            # intercept (e.g. a busy-wait on an atomic without yielding).  The simulation cannot tell a
            # livelock from its own blind spot, so this is reported as inconclusive, never as a verdict.
            batch.harness_errors.append("inconclusive: run blocks or spins outside the simulator's seams (watchdog), replay=%s" % v["replay"])
            continue
        text = open(v["replay"]).read()
        ok, r = gate_replay(pick_binary(bins, text), prop, v["replay"], cls, sig)
        if not ok and v.get("origin"):
            # The minimised plan does not reproduce in a fresh process: the worker that found it carried
            # state from earlier runs (something the code under test keeps across calls).  Start over
            # from the unminimised plan, and failing that from the run range, in fresh processes.
            o = v["origin"]
            v["replay"] = None
            batch.nondet = [dict(binary=o["binary"], run=o["run"], start=o["start"], cls=cls, sig=sig, plan=o["plan"], extra=o["extra"])]
            resolve_nondet(batch)
            if v["replay"]:
                text = open(v["replay"]).read()
                ok, r = gate_replay(pick_binary(bins, text), prop, v["replay"], cls, sig)
            else:
                continue  # resolve_nondet recorded why
        if not ok:
            batch.harness_errors.append("replay gate failed for %s (%s | %s): rc=%s out=%s" % (v["replay"], cls, sig, r.returncode, (r.stdout + r.stderr)[-400:]))
            continue
        k = match_known(known, prop, cls, sig)
        if k is not None:
            log("KNOWN-FINDING: property=%s class=%s sig=\"%s\" %s (seen %d times; replay=%s)" % (prop, cls, sig, k.get("what", ""), v["count"], v["replay"]))
            known_seen.append(dict(cls=cls, sig=sig, count=v["count"], id=k.get("id")))
        else:
            violations += 1
            log("violation: property=%s class=%s sig=\"%s\" ops=%d seen=%d" % (prop, cls, sig, v["ops"], v["count"]))
            log("VIOLATION property=%s replay=%s" % (prop, v["replay"]))
            reported.append(dict(cls=cls, sig=sig, replay=v["replay"], count=v["count"]))
            rc = 1
    if batch.harness_errors:
        for e in batch.harness_errors[:20]:
            log("HARNESS-ERROR: " + e)
        if rc == 0:
            rc = 2
    wall = time.time() - t_start
    search_s = max(t_search - t_built, 1e-3)

    faults = {k: v for k, v in counters.items() if k.startswith("fault.")}
    probes_c = {k: v for k, v in counters.items() if k.startswith("probe.")}
    has_fault = counters.get("arm.fault.executions", 0) > 0
    zero = [k for k, v in list(faults.items()) + list(probes_c.items()) if v == 0 and not k.endswith("pair_samples") and (has_fault or not (k.startswith("fault.") or k.startswith("probe.fault_")))]
    for z in zero:
        log("reach-warning: %s never fired in this batch" % z)
    e = ENGINES[engine]
    comp = {}
    r = run_cmd([bins[0][1], "--components"])
    try:
        comp = json.loads(r.stdout)
    except ValueError:
        comp = {}
    evidence = {
        "property_id": prop,
        "tier": tier,
        "seed": seed,
        "level": spec["level"],
        "wall_s": round(wall, 2),
        "violations": violations,
        "coverage": {
            "evaluations": evals,
            "distinct_nontrivial": distinct,
            "distinct_is_lower_bound": capped,
            "repeated_with_atomics_variant_only": fell_back,
            "rule": RULES[engine],
            "samples": samples,
            "simulated_runs": runs,
            "runs_per_hour": int(evals / search_s * 3600),
            "seeds_per_hour": int(runs / search_s * 3600),
            "seeds": {"batch_seed": seed, "first_run_index": 0, "last_run_index": total - 1,
                      "derivation": "run_seed = splitmix64(VERIF_SEED ^ engine_tag*phi ^ splitmix64(i)); xoshiro256** per run"},
            "steps": steps,
            "simulated_time_ns": simtime if engine == "logsim" else None,
            "simulated_time_note": "only logsim has a clock in the anchored code; other engines report steps" if engine != "logsim" else "SimClock nanoseconds summed over runs",
            "arms": {"fault_free_executions": counters.get("arm.fault_free.executions", 0),
                     "fault_executions": counters.get("arm.fault.executions", 0)},
            "faults_fired": faults,
            "probes": probes_c,
            "other_counters": {k: v for k, v in counters.items() if not k.startswith(("fault.", "probe.", "arm."))},
            "op_probes": probes,
            "components": comp,
            "worker_deaths": batch.deaths,
            "crash_classes": {k: v["count"] for k, v in batch.crash_classes.items()},
            "abandoned_ranges": batch.abandoned,
            "known_findings_seen": known_seen,
            "violations_reported": reported,
            "build_s": round(t_built - t_start, 2),
            "search_s": round(search_s, 2),
            "workers": NCPU,
            "exhaustive": False,
        },
        "assumptions": ASSUMPTIONS[engine],
    }
    evdir = os.environ.get("VERIF_EVIDENCE_DIR", os.path.join(VERIF, "evidence"))
    os.makedirs(evdir, exist_ok=True)
    with open(os.path.join(evdir, prop + ".json"), "w") as f:
        json.dump(evidence, f, indent=1)
        f.write("\n")
    shutil.rmtree(batch.scratch, ignore_errors=True)
    # intermediate plan files (unminimised originals, nondeterminism candidates) are not results
    keep = set(r["replay"] for r in reported) | set(v["replay"] for v in batch.viol.values() if v.get("replay"))
    for f in glob.glob(os.path.join(batch.outdir, "*")):
        if f not in keep and (f.endswith(".orig") or f.endswith(".plan") or f.endswith(".tmp")):
            try:
                os.unlink(f)
            except OSError:
                pass
    log("%s %s: %d executions in %d runs, %d distinct non-trivial, %.1fs build + %.1fs search, violations=%d known=%d exit=%d"
        % (prop, tier, evals, runs, distinct, t_built - t_start, search_s, violations, len(known_seen), rc))
    return rc


RULES = {
    "fvsim": "each run = seeded history of 2-14 operations over <=3 fixed_vector objects (capacity 0-6, 8 value ids, "
             "three element types) executed against a bounded-sequence model; fault arm re-executes the history once per "
             "fault site (alloc / element-operation throw) of the chosen operation(s). Distinct = distinct trace hash "
             "(op kinds, targets, outcomes, fired faults); non-trivial = at least 3 operations actually executed.",
    "ownsim": "each run = seeded history of operations over pools of quaint_ptr / vector<quaint_ptr> / optional<Payload>; "
              "fault arm enumerates every alloc/throw site of the chosen operation(s). Distinct = distinct trace hash; "
              "non-trivial = at least 3 operations executed.",
    "optsim": "each run = seeded session on one long-lived parser: declarations, moves, environment changes and parses "
              "(successful and late-failing) compared with a freshly built twin; distinct = distinct trace hash; "
              "non-trivial = at least 2 parses or 1 move after declarations.",
    "usagesim": "each run = seeded declaration rendered by usage() into 4-6 simulated stream configurations; distinct = "
                "distinct trace hash over declaration shape and stream knobs; non-trivial = at least 2 options declared.",
    "dlsim": "each run = seeded history of open/load/copy/call/destroy and env operations against the simulated loader; "
             "fault arm enumerates alloc sites of the chosen operation(s). Distinct = distinct trace hash; non-trivial = "
             "at least 3 operations executed.",
    "logsim": "each run = seeded plan of 1-4 simulated threads x 1-5 log statements (both forms) with threshold flips, "
              "scheduled by the seeded scheduler at every yield point; distinct = distinct trace hash over the event log "
              "(thread, yield-point kind, outcome); non-trivial = at least 2 statements and at least 1 context switch or fault.",
}
ASSUMPTIONS = {
    "fvsim": ["sampled histories, not exhaustive; single-fault positions of the chosen operation are enumerated completely",
              "ASan/UBSan red zones define 'memory outside the capacity slots'",
              "state of a moved-from container is not prescribed by the property: only size<=capacity, destruction and re-assignment are exercised on it",
              "range insert at a position before end() is not exercised (its semantics are not fixed by the property)"],
    "ownsim": ["sampled histories; fault positions of the chosen operation enumerated", "self-move-assignment is not generated"],
    "optsim": ["the twin parser is the same code: the oracle decides history-independence, not what a parse should return"],
    "usagesim": ["reference text = the first stream configuration (fresh ostringstream)"],
    "dlsim": ["the dynamic loader is simulated via --wrap; a minority of runs forward to the real loader"],
    "logsim": ["interleavings are explored at the granularity of the yield points listed in DESIGN.md 2.3"],
}


def main():
    ap = argparse.ArgumentParser()
    ap.add_argument("prop", nargs="?")
    ap.add_argument("--tier", default=os.environ.get("VERIF_TIER", "quick"), choices=["quick", "thorough"])
    ap.add_argument("--setup", action="store_true")
    ap.add_argument("--replay")
    args = ap.parse_args()
    seed = int(os.environ.get("VERIF_SEED", "1") or "1")
    if args.setup:
        ok = True
        engines = sorted(set(p["engine"] for p in PROPS.values() if os.path.isdir(os.path.join(VERIF, "sim", p["engine"]))))
        for e in engines:
            t0 = time.time()
            bins, _ = build_engine(e)
            log("setup: %s %s (%.1fs)" % (e, "ok" if bins else "FAILED", time.time() - t0))
            ok = ok and bins is not None
        return 0 if ok else 2
    if not args.prop or args.prop not in PROPS:
        sys.stderr.write("unknown property; claimed: %s\n" % " ".join(sorted(PROPS)))
        return 2
    if args.replay:
        bins, _ = build_engine(PROPS[args.prop]["engine"])
        if bins is None:
            return 2
        text = open(args.replay).read()
        r = subprocess.run([pick_binary(bins, text), "--replay", args.replay, "--prop", args.prop, "--verbose"])
        if r.returncode == 1:
            log("VIOLATION property=%s replay=%s" % (args.prop, args.replay))
            return 1
        if r.returncode == 0:
            return 0
        if r.returncode == 77 or r.returncode < 0:
            log("VIOLATION property=%s replay=%s" % (args.prop, args.replay))
            return 1
        return 2
    return run_check(args.prop, args.tier, seed)


if __name__ == "__main__":
    sys.exit(main())
