// Deterministic-simulation core shared by all engines (DESIGN.md section 2).
//
// One integer decides everything: run i of a batch draws all its choices from
// xoshiro256** seeded with splitmix64(VERIF_SEED ^ engine_tag ^ i).  A run is
// generate(seed) -> Plan, execute(Plan) -> Outcome.  Plans (explicit operation
// lists with faults attached to operations, plus recorded scheduler choices)
// are what gets minimised and replayed, never PRNG states.
#pragma once

#include <algorithm>
#include <array>
#include <cinttypes>
#include <csignal>
#include <cstdint>
#include <cstdio>
#include <cstdlib>
#include <cstring>
#include <fstream>
#include <functional>
#include <map>
#include <memory>
#include <set>
#include <sstream>
#include <string>
#include <unordered_set>
#include <vector>

#include <fcntl.h>
#include <sys/stat.h>
#include <sys/wait.h>
#include <unistd.h>

namespace sim
{

// ---------------------------------------------------------------- PRNG
inline uint64_t splitmix64(uint64_t x)
{
    x += 0x9E3779B97F4A7C15ULL;
    x = (x ^ (x >> 30)) * 0xBF58476D1CE4E5B9ULL;
    x = (x ^ (x >> 27)) * 0x94D049BB133111EBULL;
    return x ^ (x >> 31);
}

struct Rng
{
    uint64_t s[4];
    uint64_t draws = 0;
    explicit Rng(uint64_t seed)
    {
        uint64_t x = seed;
        for (auto& w : s)
        {
            x = splitmix64(x);
            w = x;
        }
        if (!(s[0] | s[1] | s[2] | s[3]))
            s[0] = 1;
    }
    static uint64_t rotl(uint64_t x, int k)
    {
        return (x << k) | (x >> (64 - k));
    }
    uint64_t next()
    {
        ++draws;
        const uint64_t result = rotl(s[1] * 5, 7) * 9;
        const uint64_t t = s[1] << 17;
        s[2] ^= s[0];
        s[3] ^= s[1];
        s[1] ^= s[2];
        s[0] ^= s[3];
        s[2] ^= t;
        s[3] = rotl(s[3], 45);
        return result;
    }
    // uniform in [0,n); n>0.  Modulo bias is irrelevant here and keeps one draw per choice.
    uint64_t below(uint64_t n)
    {
        return n ? next() % n : 0;
    }
    int range(int lo, int hi) // inclusive
    {
        return lo + static_cast<int>(below(static_cast<uint64_t>(hi - lo + 1)));
    }
    bool chance(unsigned num, unsigned den)
    {
        return below(den) < num;
    }
    template <typename T>
    const T& pick(const std::vector<T>& v)
    {
        return v[below(v.size())];
    }
};

// ---------------------------------------------------------------- trace hash
struct Fnv
{
    uint64_t h = 14695981039346656037ULL;
    void byte(unsigned char b)
    {
        h ^= b;
        h *= 1099511628211ULL;
    }
    void add(uint64_t v)
    {
        for (int i = 0; i < 8; i++)
            byte(static_cast<unsigned char>(v >> (8 * i)));
    }
    void adds(const std::string& s)
    {
        for (unsigned char c : s)
            byte(c);
        byte(0xff);
    }
};

// ---------------------------------------------------------------- counters (evidence)
struct Counter
{
    const char* name;
    uint64_t v = 0;
    Counter* next;
    static Counter*& head()
    {
        static Counter* h = nullptr;
        return h;
    }
    explicit Counter(const char* n) : name(n), next(head())
    {
        head() = this;
    }
    void operator++(int)
    {
        ++v;
    }
    void operator+=(uint64_t d)
    {
        v += d;
    }
};

// ---------------------------------------------------------------- faults attached to ops
enum FaultKind
{
    FK_NONE = 0,
    FK_ALLOC = 1, // alloc.fail: k-th operator new inside the op's fault window throws bad_alloc
    FK_THROW = 2, // user.throw: k-th user-supplied operation inside the window throws
    FK_N = 3
};
inline const char* fault_kind_name(int k)
{
    static const char* n[] = { "none", "alloc", "throw" };
    return (k >= 0 && k < FK_N) ? n[k] : "?";
}
inline int fault_kind_from(const std::string& s)
{
    for (int k = 0; k < FK_N; k++)
        if (s == fault_kind_name(k))
            return k;
    return -1;
}

struct InjectedThrow
{
    int site;
};

struct FaultCtl
{
    bool window = false;
    int armed_kind = FK_NONE;
    int armed_idx = -1;
    int count[FK_N] = { 0, 0, 0 };
    bool fired = false;
    int fired_kind = FK_NONE;
};
// per thread: in the threaded engine every simulated thread has its own window state
inline FaultCtl& fctl()
{
    static thread_local FaultCtl f;
    return f;
}
extern Counter c_alloc_fired, c_throw_fired, c_alloc_sites, c_throw_sites;

// Called at every fault site of `kind`.  Returns true iff the fault fires here.
inline bool fault_site(int kind)
{
    FaultCtl& f = fctl();
    if (!f.window)
        return false;
    int n = f.count[kind]++;
    if (f.armed_kind == kind && f.armed_idx == n)
    {
        f.armed_kind = FK_NONE; // one shot
        f.fired = true;
        f.fired_kind = kind;
        return true;
    }
    return false;
}
inline void throw_site()
{
    if (fault_site(FK_THROW))
    {
        c_throw_fired++;
        throw InjectedThrow{ fctl().count[FK_THROW] - 1 };
    }
}

// Raw-memory accounting (opt-in per engine): every block obtained through operator new inside a
// fault window is remembered until it is deleted; what is still there when a run has destroyed
// all its objects was leaked by the code under test.  (LeakSanitizer cannot attribute to a run.)
struct AllocTrack
{
    bool enabled = false;
    static constexpr size_t CAP = 4096;
    void* blocks[CAP];
    size_t n = 0;
    bool overflow = false;
    void reset()
    {
        n = 0;
        overflow = false;
    }
    void add(void* p)
    {
        if (n < CAP)
            blocks[n++] = p;
        else
            overflow = true;
    }
    void remove(void* p)
    {
        for (size_t i = n; i-- > 0;)
            if (blocks[i] == p)
            {
                blocks[i] = blocks[--n];
                return;
            }
    }
    size_t live() const
    {
        return overflow ? 0 : n;
    }
};
inline AllocTrack& atrack()
{
    static AllocTrack t;
    return t;
}
// an engine may make allocations inside the code under test a scheduler yield point
using AllocHook = void (*)();
inline AllocHook& alloc_hook()
{
    static AllocHook h = nullptr;
    return h;
}

// RAII: the code under test runs inside a window; harness bookkeeping outside.
struct FaultWindow
{
    bool prev;
    FaultWindow() : prev(fctl().window)
    {
        fctl().window = true;
    }
    ~FaultWindow()
    {
        fctl().window = prev;
    }
};
struct NoFault
{
    bool prev;
    NoFault() : prev(fctl().window)
    {
        fctl().window = false;
    }
    ~NoFault()
    {
        fctl().window = prev;
    }
};

// ---------------------------------------------------------------- plans
constexpr int NARGS = 6;
struct Op
{
    int kind = 0;
    int64_t a[NARGS] = { 0, 0, 0, 0, 0, 0 };
    std::string s;
    int fkind = FK_NONE;
    int fidx = 0;
    bool operator==(const Op& o) const
    {
        return kind == o.kind && std::equal(a, a + NARGS, o.a) && s == o.s && fkind == o.fkind &&
               fidx == o.fidx;
    }
};

struct Plan
{
    std::vector<std::pair<std::string, int64_t>> knobs;
    std::vector<Op> ops;
    std::vector<int> choices; // threaded engines: thread id picked at each scheduler decision
    int64_t knob(const char* name, int64_t dflt = 0) const
    {
        for (auto& k : knobs)
            if (k.first == name)
                return k.second;
        return dflt;
    }
    void set_knob(const char* name, int64_t v)
    {
        for (auto& k : knobs)
            if (k.first == name)
            {
                k.second = v;
                return;
            }
        knobs.emplace_back(name, v);
    }
};

struct Violation
{
    std::string cls; // "C06/must-raise"
    std::string sig; // "op=at arg=index==size"
    int op = -1;
    std::string detail;
    bool same_class(const Violation& o) const
    {
        return cls == o.cls && sig == o.sig;
    }
};

struct Outcome
{
    bool violated = false;
    Violation v;
    uint64_t hash = 0;
    bool nontrivial = false;
    std::vector<std::array<int, FK_N>> sites; // per op, fault sites seen in its window
    std::vector<int> choices;                 // threaded: choices actually taken
    uint64_t steps = 0;
    uint64_t sim_time_ns = 0;
};

struct OpSchema
{
    const char* name;
    const char* args[NARGS]; // nullptr = unused
};

struct Config
{
    std::string prop;
    std::string tier = "quick";
    uint64_t batch_seed = 1;
    std::set<std::string> avoid; // signatures of open known findings (swarm: avoided in ~half the runs)
};

class Engine
{
public:
    virtual ~Engine() = default;
    virtual const char* name() const = 0;
    virtual uint64_t tag() const = 0;
    virtual const std::vector<OpSchema>& schema() const = 0;
    // true if runs for this property include the enumerated fault arm
    virtual bool has_fault_arm(const std::string& prop) const = 0;
    // arm: 0 fault-free, 1 fault arm (base plan is still generated fault-free)
    virtual Plan generate(Rng& rng, const Config& cfg, int arm) = 0;
    virtual Outcome execute(const Plan& plan, const Config& cfg) = 0;
    // which violation classes belong to the property being checked
    virtual bool owns(const std::string& prop, const std::string& cls) const
    {
        return cls.compare(0, prop.size() + 1, prop + "/") == 0;
    }
    // engine-specific simplifications of one op (generic numeric shrinking is always tried)
    virtual void simplify(const Op&, std::vector<Op>&) const
    {
    }
    // which fault kinds can be attached to this op
    virtual bool fault_ok(const Op&, int /*kind*/) const
    {
        return true;
    }
    virtual std::vector<std::string> real_components() const = 0;
    virtual std::vector<std::string> stub_components() const = 0;
    virtual bool threaded() const
    {
        return false;
    }
    // how many fault positions of one kind are executed per chosen operation; when an operation
    // has more sites than that, the positions are spread evenly over all of them (PRNG phase)
    virtual int max_sites(const std::string& /*tier*/) const
    {
        return 48;
    }
};

// ---------------------------------------------------------------- text format
inline std::string esc(const std::string& s)
{
    std::string o;
    for (unsigned char c : s)
    {
        if (c == '"' || c == '\\' || c < 0x20 || c >= 0x7f)
        {
            char b[8];
            snprintf(b, sizeof b, "\\x%02x", c);
            o += b;
        }
        else
            o += static_cast<char>(c);
    }
    return o;
}
inline std::string unesc(const std::string& s)
{
    std::string o;
    for (size_t i = 0; i < s.size(); i++)
    {
        if (s[i] == '\\' && i + 3 < s.size() + 0 && s[i + 1] == 'x')
        {
            o += static_cast<char>(std::stoi(s.substr(i + 2, 2), nullptr, 16));
            i += 3;
        }
        else
            o += s[i];
    }
    return o;
}

inline std::string op_to_string(const Engine& e, const Op& op)
{
    const auto& sc = e.schema();
    std::ostringstream o;
    if (op.kind < 0 || op.kind >= static_cast<int>(sc.size()))
    {
        o << "?kind" << op.kind;
        return o.str();
    }
    o << sc[op.kind].name;
    for (int k = 0; k < NARGS; k++)
        if (sc[op.kind].args[k])
            o << ' ' << sc[op.kind].args[k] << '=' << op.a[k];
    if (!op.s.empty())
        o << " s=\"" << esc(op.s) << "\"";
    if (op.fkind != FK_NONE)
        o << " fault=" << fault_kind_name(op.fkind) << '@' << op.fidx;
    return o.str();
}

inline std::string plan_to_string(const Engine& e, const Plan& p)
{
    std::ostringstream o;
    for (auto& k : p.knobs)
        o << "knob " << k.first << '=' << k.second << '\n';
    for (size_t i = 0; i < p.ops.size(); i++)
        o << "op " << i << ' ' << op_to_string(e, p.ops[i]) << '\n';
    if (!p.choices.empty())
    {
        o << "choices";
        for (int c : p.choices)
            o << ' ' << c;
        o << '\n';
    }
    return o.str();
}

struct ReplayFile
{
    std::string engine, prop, tier;
    uint64_t seed = 0;
    int64_t run = -1;
    Plan plan;
    Violation expect;
    // "range" replay: the violation shows in run `range_to` only when runs range_from.. are
    // executed before it in the same process (state the code under test keeps across calls)
    bool is_range = false;
    uint64_t range_from = 0, range_to = 0;
};

inline std::string replay_to_string(const Engine& e, const ReplayFile& r)
{
    std::ostringstream o;
    o << "nitro-verif-replay 1\n";
    o << "engine " << r.engine << " property " << r.prop << " seed " << r.seed << " run " << r.run
      << " tier " << r.tier << '\n';
    o << plan_to_string(e, r.plan);
    o << "expect class=" << r.expect.cls << " at_op=" << r.expect.op << " sig=\""
      << esc(r.expect.sig) << "\" detail=\"" << esc(r.expect.detail) << "\"\n";
    return o.str();
}

// split on blanks, keeping "quoted strings" (which may contain blanks) together
inline std::vector<std::string> tokenise(const std::string& line)
{
    std::vector<std::string> out;
    std::string cur;
    bool inq = false, any = false;
    for (char c : line)
    {
        if (c == '"')
        {
            inq = !inq;
            cur += c;
            any = true;
        }
        else if ((c == ' ' || c == '\t') && !inq)
        {
            if (any)
                out.push_back(cur);
            cur.clear();
            any = false;
        }
        else
        {
            cur += c;
            any = true;
        }
    }
    if (any)
        out.push_back(cur);
    return out;
}

struct TokStream
{
    std::vector<std::string> t;
    size_t i = 0;
    explicit TokStream(const std::string& line) : t(tokenise(line))
    {
    }
    bool next(std::string& w)
    {
        if (i >= t.size())
            return false;
        w = t[i++];
        return true;
    }
    template <typename T>
    bool num(T& v)
    {
        std::string w;
        if (!next(w))
            return false;
        v = static_cast<T>(std::stoll(w));
        return true;
    }
    bool numu(uint64_t& v)
    {
        std::string w;
        if (!next(w))
            return false;
        v = std::stoull(w);
        return true;
    }
};

inline bool parse_replay(const Engine& e, const std::string& text, ReplayFile& r, std::string& err)
{
    std::istringstream in(text);
    std::string line;
    if (!std::getline(in, line) || line.rfind("nitro-verif-replay", 0) != 0)
    {
        err = "bad header";
        return false;
    }
    const auto& sc = e.schema();
    while (std::getline(in, line))
    {
        TokStream ls(line);
        std::string w;
        if (!ls.next(w))
            continue;
        if (w == "engine")
        {
            std::string k;
            ls.next(r.engine);
            while (ls.next(k))
            {
                if (k == "property")
                    ls.next(r.prop);
                else if (k == "seed")
                    ls.numu(r.seed);
                else if (k == "run")
                    ls.num(r.run);
                else if (k == "tier")
                    ls.next(r.tier);
            }
        }
        else if (w == "knob")
        {
            std::string kv;
            while (ls.next(kv))
            {
                auto eq = kv.find('=');
                if (eq == std::string::npos)
                    continue;
                r.plan.knobs.emplace_back(kv.substr(0, eq), std::stoll(kv.substr(eq + 1)));
            }
        }
        else if (w == "op")
        {
            int idx;
            std::string kind;
            ls.num(idx);
            ls.next(kind);
            Op op;
            op.kind = -1;
            for (size_t k = 0; k < sc.size(); k++)
                if (kind == sc[k].name)
                    op.kind = static_cast<int>(k);
            if (op.kind < 0)
            {
                err = "unknown op kind " + kind;
                return false;
            }
            std::string kv;
            while (ls.next(kv))
            {
                if (kv[0] == '#')
                    break;
                auto eq = kv.find('=');
                if (eq == std::string::npos)
                    continue;
                std::string key = kv.substr(0, eq), val = kv.substr(eq + 1);
                if (key == "s")
                {
                    if (val.size() >= 2 && val.front() == '"' && val.back() == '"')
                        val = val.substr(1, val.size() - 2);
                    op.s = unesc(val);
                }
                else if (key == "fault")
                {
                    auto at = val.find('@');
                    op.fkind = fault_kind_from(val.substr(0, at));
                    op.fidx = std::stoi(val.substr(at + 1));
                    if (op.fkind < 0)
                    {
                        err = "bad fault " + val;
                        return false;
                    }
                }
                else
                {
                    bool found = false;
                    for (int k = 0; k < NARGS; k++)
                        if (sc[op.kind].args[k] && key == sc[op.kind].args[k])
                        {
                            op.a[k] = std::stoll(val);
                            found = true;
                        }
                    if (!found)
                    {
                        err = "unknown arg " + key + " for " + kind;
                        return false;
                    }
                }
            }
            r.plan.ops.push_back(op);
        }
        else if (w == "range")
        {
            std::string kv;
            r.is_range = true;
            while (ls.next(kv))
            {
                auto eq = kv.find('=');
                if (eq == std::string::npos)
                    continue;
                if (kv.substr(0, eq) == "from")
                    r.range_from = std::stoull(kv.substr(eq + 1));
                else if (kv.substr(0, eq) == "to")
                    r.range_to = std::stoull(kv.substr(eq + 1));
            }
        }
        else if (w == "choices")
        {
            std::string c;
            while (ls.next(c))
            {
                if (c[0] == '#')
                    break;
                r.plan.choices.push_back(std::stoi(c));
            }
        }
        else if (w == "expect")
        {
            std::string kv;
            while (ls.next(kv))
            {
                auto eq = kv.find('=');
                if (eq == std::string::npos)
                    continue;
                std::string key = kv.substr(0, eq), val = kv.substr(eq + 1);
                if (val.size() >= 2 && val.front() == '"' && val.back() == '"')
                    val = val.substr(1, val.size() - 2);
                if (key == "class")
                    r.expect.cls = val;
                else if (key == "at_op")
                    r.expect.op = std::stoi(val);
                else if (key == "sig")
                    r.expect.sig = unesc(val);
                else if (key == "detail")
                    r.expect.detail = unesc(val);
            }
        }
    }
    return true;
}

inline std::string read_file(const std::string& path)
{
    std::ifstream f(path, std::ios::binary);
    std::ostringstream o;
    o << f.rdbuf();
    return o.str();
}
inline void write_file(const std::string& path, const std::string& data)
{
    std::string tmp = path + ".tmp";
    {
        std::ofstream f(tmp, std::ios::binary | std::ios::trunc);
        f << data;
    }
    rename(tmp.c_str(), path.c_str());
}

inline std::string json_str(const std::string& s)
{
    std::string o = "\"";
    for (unsigned char c : s)
    {
        if (c == '"' || c == '\\')
        {
            o += '\\';
            o += static_cast<char>(c);
        }
        else if (c < 0x20 || c >= 0x7f)
        {
            char b[8];
            snprintf(b, sizeof b, "\\u%04x", c);
            o += b;
        }
        else
            o += static_cast<char>(c);
    }
    return o + "\"";
}

int sim_main(int argc, char** argv, Engine& engine);

} // namespace sim
