// Worker main loop, minimisation, replay, crash handling, allocation seam.
// Compiled into every engine binary.  See DESIGN.md sections 2.2, 2.5-2.8.
#include "sim.hpp"

#include <ctime>
#include <new>

namespace sim
{
Counter c_alloc_fired("fault.alloc.fail.fired");
Counter c_throw_fired("fault.user.throw.fired");
Counter c_alloc_sites("fault.alloc.fail.sites_enumerated");
Counter c_throw_sites("fault.user.throw.sites_enumerated");
static Counter c_runs_free("arm.fault_free.executions");
static Counter c_runs_fault("arm.fault.executions");
static Counter c_foreign("violations.other_property_in_engine");
static Counter c_pairs("fault.pair_samples");
} // namespace sim

// ------------------------------------------------------------------ allocation seam
// Global replacement operator new: the k-th allocation inside the fault window of the
// current operation throws std::bad_alloc.  malloc/free underneath, so ASan still sees
// every block.
static inline void* sim_alloc(std::size_t n)
{
    if (sim::fault_site(sim::FK_ALLOC))
    {
        sim::c_alloc_fired++;
        throw std::bad_alloc();
    }
    if (sim::alloc_hook() && sim::fctl().window)
        sim::alloc_hook()();
    void* p = std::malloc(n ? n : 1);
    if (!p)
        throw std::bad_alloc();
    if (sim::atrack().enabled && sim::fctl().window)
        sim::atrack().add(p);
    return p;
}
static inline void sim_free(void* p)
{
    if (p && sim::atrack().enabled && sim::atrack().n)
        sim::atrack().remove(p);
    std::free(p);
}
void* operator new(std::size_t n)
{
    return sim_alloc(n);
}
void* operator new[](std::size_t n)
{
    return sim_alloc(n);
}
void* operator new(std::size_t n, const std::nothrow_t&) noexcept
{
    if (sim::fault_site(sim::FK_ALLOC))
    {
        sim::c_alloc_fired++;
        return nullptr;
    }
    return std::malloc(n ? n : 1);
}
void* operator new[](std::size_t n, const std::nothrow_t&) noexcept
{
    if (sim::fault_site(sim::FK_ALLOC))
    {
        sim::c_alloc_fired++;
        return nullptr;
    }
    return std::malloc(n ? n : 1);
}
void* operator new(std::size_t n, std::align_val_t al)
{
    if (sim::fault_site(sim::FK_ALLOC))
    {
        sim::c_alloc_fired++;
        throw std::bad_alloc();
    }
    void* p = nullptr;
    if (posix_memalign(&p, std::max(static_cast<std::size_t>(al), sizeof(void*)), n ? n : 1))
        throw std::bad_alloc();
    return p;
}
void* operator new[](std::size_t n, std::align_val_t al)
{
    return operator new(n, al);
}
void operator delete(void* p) noexcept
{
    sim_free(p);
}
void operator delete[](void* p) noexcept
{
    sim_free(p);
}
void operator delete(void* p, std::size_t) noexcept
{
    sim_free(p);
}
void operator delete[](void* p, std::size_t) noexcept
{
    sim_free(p);
}
void operator delete(void* p, const std::nothrow_t&) noexcept
{
    sim_free(p);
}
void operator delete[](void* p, const std::nothrow_t&) noexcept
{
    sim_free(p);
}
void operator delete(void* p, std::align_val_t) noexcept
{
    sim_free(p);
}
void operator delete[](void* p, std::align_val_t) noexcept
{
    sim_free(p);
}
void operator delete(void* p, std::size_t, std::align_val_t) noexcept
{
    sim_free(p);
}
void operator delete[](void* p, std::size_t, std::align_val_t) noexcept
{
    sim_free(p);
}

// Sanitizer defaults: classify hits by exit code, leaks are decided per run by instance
// counting (attributable to a seed), not by LSan at exit.
extern "C" __attribute__((used)) const char* __asan_default_options()
{
    return "exitcode=77:detect_leaks=0:abort_on_error=0:handle_abort=1:allocator_may_return_null=1:"
           "detect_stack_use_after_return=0:new_delete_type_mismatch=0:alloc_dealloc_mismatch=0";
}
extern "C" __attribute__((used)) const char* __ubsan_default_options()
{
    return "exitcode=77:print_stacktrace=1:halt_on_error=1";
}

namespace sim
{

static void hang_handler(int)
{
    static const char msg[] = "\nSIM-HANG: wall-clock watchdog fired\n";
    ssize_t r = write(2, msg, sizeof msg - 1);
    (void)r;
    _exit(78);
}

static uint64_t run_seed(const Config& cfg, const Engine& e, uint64_t i)
{
    // the property id is part of the derivation so that two properties served by one engine
    // explore different seeds
    uint64_t ph = 1469598103934665603ULL;
    for (unsigned char c : cfg.prop)
        ph = (ph ^ c) * 1099511628211ULL;
    return splitmix64(cfg.batch_seed ^ (e.tag() * 0x9E3779B97F4A7C15ULL) ^ splitmix64(i) ^ ph);
}

// ------------------------------------------------------------------ test predicate used by the minimiser
struct Tester
{
    Engine& e;
    const Config& cfg;
    Violation want;
    bool crash_mode; // candidates are executed in a forked child (crash classes)
    uint64_t execs = 0;
    uint64_t steps_used = 0; // simulator steps spent by candidates (a deterministic cost measure)
    std::string planfile = std::string(); // isolate mode: every candidate is written before it runs
    const ReplayFile* meta = nullptr;

    // classify stderr of a dead child
    static std::string classify(const std::string& err, int status)
    {
        // must stay identical to classify_stderr() in bin/check.py
        auto words = [](const std::string& t, size_t from, int maxw) {
            std::string k;
            int nw = 0;
            bool inw = false;
            for (size_t i = from; i < t.size() && t[i] != '\n'; i++)
            {
                bool al = isalnum(static_cast<unsigned char>(t[i])) || t[i] == '_';
                if (al)
                {
                    if (!inw)
                    {
                        if (nw == maxw)
                            break;
                        if (nw)
                            k += '-';
                        ++nw;
                        inw = true;
                    }
                    k += t[i];
                }
                else
                    inw = false;
            }
            return k;
        };
        if (err.find("SIM-DEADLOCK") != std::string::npos)
            return "deadlock";
        if (err.find("SIM-STEPBUDGET") != std::string::npos)
            return "step-budget";
        auto pos = err.find("runtime error: ");
        if (pos != std::string::npos)
            return "ubsan:" + words(err, pos + 15, 4);
        pos = err.find("ERROR: AddressSanitizer: ");
        if (pos != std::string::npos)
        {
            // first blank-delimited token, e.g. heap-use-after-free, SEGV, ABRT
            // ("attempting double-free ..." / "attempting free ..." are named by their second word)
            size_t from = pos + 25;
            if (err.compare(from, 11, "attempting ") == 0)
                from += 11;
            std::string k;
            for (size_t i = from; i < err.size() && err[i] != ' ' && err[i] != '\n'; i++)
                k += (isalnum(static_cast<unsigned char>(err[i])) || err[i] == '-' || err[i] == '_') ? err[i] : '_';
            return "asan:" + k;
        }
        if (err.find("SIM-HANG") != std::string::npos)
            return "hang";
        if (WIFSIGNALED(status))
            return "crash:signal" + std::to_string(WTERMSIG(status));
        if (WIFEXITED(status) && WEXITSTATUS(status) == 77)
            return "asan:unknown";
        return "crash:exit" + std::to_string(WIFEXITED(status) ? WEXITSTATUS(status) : -1);
    }

    // returns: violation observed by candidate (cls empty if none)
    Violation run(const Plan& p)
    {
        ++execs;
        if (!planfile.empty() && meta)
        {
            ReplayFile r = *meta;
            r.plan = p;
            write_file(planfile, replay_to_string(e, r));
        }
        if (!crash_mode)
        {
            alarm(60);
            Outcome o = e.execute(p, cfg);
            steps_used += o.steps;
            return o.violated ? o.v : Violation();
        }
        char tmpl[] = "/dev/shm/simchild.XXXXXX";
        int fd = mkstemp(tmpl);
        if (fd < 0)
        {
            strcpy(tmpl, "/tmp/simchild.XXXXXX");
            fd = mkstemp(tmpl);
        }
        fflush(nullptr);
        pid_t pid = fork();
        if (pid == 0)
        {
            dup2(fd, 2);
            signal(SIGALRM, hang_handler);
            alarm(10);
            Outcome o = e.execute(p, cfg);
            alarm(0);
            if (o.violated)
            {
                std::string m = "SIM-VIOL " + o.v.cls + "\n" + o.v.sig + "\n";
                ssize_t r = write(2, m.data(), m.size());
                (void)r;
                _exit(1);
            }
            _exit(0);
        }
        int status = 0;
        waitpid(pid, &status, 0);
        close(fd);
        std::string err = read_file(tmpl);
        unlink(tmpl);
        Violation v;
        if (WIFEXITED(status) && WEXITSTATUS(status) == 0)
            return v;
        if (WIFEXITED(status) && WEXITSTATUS(status) == 1 && err.find("SIM-VIOL ") != std::string::npos)
        {
            auto p0 = err.find("SIM-VIOL ") + 9;
            auto p1 = err.find('\n', p0);
            auto p2 = err.find('\n', p1 + 1);
            v.cls = err.substr(p0, p1 - p0);
            v.sig = err.substr(p1 + 1, p2 - p1 - 1);
            return v;
        }
        v.cls = cfg.prop + "/" + classify(err, status);
        v.sig = "crash";
        v.detail = err.substr(0, 400);
        return v;
    }
    bool same(const Plan& p)
    {
        Violation v = run(p);
        if (v.cls.empty())
            return false;
        if (crash_mode && want.sig == "crash")
            return v.cls == want.cls;
        return v.same_class(want);
    }
};

// ddmin over the operation list, then per-op simplification, then the choice list.
static Plan minimise(Engine& e, const Config& cfg, Plan plan, Tester& t, uint64_t budget = 4000)
{
    // bounded by executions and by simulator steps (big threaded plans are expensive per execution);
    // both are deterministic measures, so the minimised plan does not depend on machine load
    auto over = [&] { return t.execs > budget || t.steps_used > 4000000; };
    // 1. ddmin on ops
    size_t n = 2;
    while (plan.ops.size() >= 2 && !over())
    {
        size_t len = plan.ops.size();
        size_t chunk = (len + n - 1) / n;
        bool reduced = false;
        for (size_t start = 0; start < len && !over(); start += chunk)
        {
            Plan cand = plan;
            cand.ops.erase(cand.ops.begin() + start,
                           cand.ops.begin() + std::min(len, start + chunk));
            if (cand.ops.empty())
                continue;
            if (t.same(cand))
            {
                plan = cand;
                n = std::max<size_t>(n - 1, 2);
                reduced = true;
                break;
            }
        }
        if (!reduced)
        {
            if (n >= len)
                break;
            n = std::min(len, n * 2);
        }
    }
    // single-op removal sweep (ddmin granularity 1, repeated until fixpoint)
    bool changed = true;
    while (changed && !over())
    {
        changed = false;
        for (size_t i = plan.ops.size(); i-- > 0 && plan.ops.size() > 1 && !over();)
        {
            Plan cand = plan;
            cand.ops.erase(cand.ops.begin() + i);
            if (t.same(cand))
            {
                plan = cand;
                changed = true;
            }
        }
    }
    // 2. per-op simplification
    changed = true;
    int rounds = 0;
    while (changed && !over() && rounds++ < 4)
    {
        changed = false;
        for (size_t i = 0; i < plan.ops.size() && !over(); i++)
        {
            std::vector<Op> cands;
            const Op& op = plan.ops[i];
            if (op.fkind != FK_NONE)
            {
                Op c = op;
                c.fkind = FK_NONE;
                c.fidx = 0;
                cands.push_back(c);
                if (op.fidx > 0)
                {
                    c = op;
                    c.fidx = 0;
                    cands.push_back(c);
                    c = op;
                    c.fidx = op.fidx - 1;
                    cands.push_back(c);
                }
            }
            e.simplify(op, cands);
            const auto& sc = e.schema()[op.kind];
            for (int k = 0; k < NARGS; k++)
            {
                if (!sc.args[k] || op.a[k] <= 0)
                    continue;
                for (int64_t nv : { int64_t(0), op.a[k] / 2, op.a[k] - 1 })
                {
                    if (nv == op.a[k])
                        continue;
                    Op c = op;
                    c.a[k] = nv;
                    cands.push_back(c);
                }
            }
            if (op.s.size() > 0)
            {
                Op c = op;
                c.s = op.s.substr(0, op.s.size() / 2);
                cands.push_back(c);
                c = op;
                c.s = op.s.substr(0, op.s.size() - 1);
                cands.push_back(c);
            }
            for (auto& c : cands)
            {
                if (c == plan.ops[i])
                    continue;
                Plan cand = plan;
                cand.ops[i] = c;
                if (t.same(cand))
                {
                    plan = cand;
                    changed = true;
                    break;
                }
                if (over())
                    break;
            }
        }
    }
    // 3. knobs towards 0
    for (size_t k = 0; k < plan.knobs.size() && !over(); k++)
    {
        if (plan.knobs[k].second <= 0 || plan.knobs[k].first == "min" || plan.knobs[k].first == "atomics")
            continue;
        Plan cand = plan;
        cand.knobs[k].second = 0;
        if (t.same(cand))
            plan = cand;
    }
    // 4. choice list: shortest prefix, then fewest preemptions (-1 = stay on current thread)
    if (!plan.choices.empty())
    {
        size_t lo = 0, hi = plan.choices.size();
        while (lo < hi && !over())
        {
            size_t mid = (lo + hi) / 2;
            Plan cand = plan;
            cand.choices.resize(mid);
            if (t.same(cand))
                hi = mid;
            else
                lo = mid + 1;
        }
        {
            Plan cand = plan;
            cand.choices.resize(hi);
            if (hi < plan.choices.size() && t.same(cand))
                plan = cand;
        }
        for (size_t i = 0; i < plan.choices.size() && !over(); i++)
        {
            if (plan.choices[i] == -1)
                continue;
            Plan cand = plan;
            cand.choices[i] = -1;
            if (t.same(cand))
                plan = cand;
        }
        while (!plan.choices.empty() && plan.choices.back() == -1)
            plan.choices.pop_back();
    }
    return plan;
}

static std::string sanitise(const std::string& s)
{
    std::string o;
    for (char c : s)
        o += (isalnum(static_cast<unsigned char>(c)) || c == '-' || c == '_') ? c : '_';
    return o;
}

static void mkdirs(const std::string& path)
{
    std::string cur;
    for (size_t i = 0; i <= path.size(); i++)
    {
        if (i == path.size() || path[i] == '/')
        {
            if (!cur.empty())
                mkdir(cur.c_str(), 0777);
        }
        if (i < path.size())
            cur += path[i];
    }
}

struct Args
{
    std::map<std::string, std::string> kv;
    std::vector<std::string> pos;
    bool has(const char* k) const
    {
        return kv.count(k);
    }
    std::string get(const char* k, const std::string& d = "") const
    {
        auto it = kv.find(k);
        return it == kv.end() ? d : it->second;
    }
    int64_t geti(const char* k, int64_t d) const
    {
        auto it = kv.find(k);
        return it == kv.end() ? d : std::stoll(it->second);
    }
};

static void print_stats(const Engine& e, uint64_t evals, uint64_t runs, uint64_t distinct,
                        uint64_t steps, uint64_t simtime, const std::vector<std::string>& samples,
                        bool hash_capped)
{
    std::ostringstream o;
    o << "STATS {\"evaluations\":" << evals << ",\"runs\":" << runs
      << ",\"distinct_nontrivial_local\":" << distinct << ",\"steps\":" << steps
      << ",\"simulated_time_ns\":" << simtime << ",\"hash_set_capped\":" << (hash_capped ? "true" : "false")
      << ",\"counters\":{";
    bool first = true;
    for (Counter* c = Counter::head(); c; c = c->next)
    {
        if (!first)
            o << ',';
        first = false;
        o << json_str(c->name) << ':' << c->v;
    }
    o << "},\"samples\":[";
    for (size_t i = 0; i < samples.size(); i++)
    {
        if (i)
            o << ',';
        o << json_str(samples[i]);
    }
    o << "],\"engine\":" << json_str(e.name()) << "}";
    puts(o.str().c_str());
    fflush(stdout);
}

int sim_main(int argc, char** argv, Engine& e)
{
    Args a;
    for (int i = 1; i < argc; i++)
    {
        std::string s = argv[i];
        if (s.rfind("--", 0) == 0)
        {
            std::string k = s.substr(2);
            if (i + 1 < argc && strncmp(argv[i + 1], "--", 2) != 0)
                a.kv[k] = argv[++i];
            else
                a.kv[k] = "1";
        }
        else
            a.pos.push_back(s);
    }
    Config cfg;
    cfg.prop = a.get("prop");
    cfg.tier = a.get("tier", "quick");
    cfg.batch_seed = static_cast<uint64_t>(a.geti("seed", 1));
    {
        std::istringstream av(a.get("avoid"));
        std::string tok;
        while (std::getline(av, tok, ';'))
            if (!tok.empty())
                cfg.avoid.insert(tok);
    }
    signal(SIGALRM, hang_handler);
    setvbuf(stdout, nullptr, _IOLBF, 0);

    if (a.has("components"))
    {
        std::ostringstream o;
        o << "{\"real\":[";
        auto rc_ = e.real_components();
        for (size_t i = 0; i < rc_.size(); i++)
            o << (i ? "," : "") << json_str(rc_[i]);
        o << "],\"stub\":[";
        auto sc_ = e.stub_components();
        for (size_t i = 0; i < sc_.size(); i++)
            o << (i ? "," : "") << json_str(sc_[i]);
        o << "]}";
        puts(o.str().c_str());
        return 0;
    }

    // ---------------------------------------------------------- merge hash files
    if (a.has("merge-hashes"))
    {
        std::vector<uint64_t> all;
        for (auto& f : a.pos)
        {
            std::string d = read_file(f);
            size_t n = d.size() / 8;
            if (!n)
                continue;
            size_t old = all.size();
            all.resize(old + n);
            memcpy(all.data() + old, d.data(), n * 8);
        }
        std::sort(all.begin(), all.end());
        all.erase(std::unique(all.begin(), all.end()), all.end());
        printf("DISTINCT %zu\n", all.size());
        return 0;
    }

    // ---------------------------------------------------------- replay
    if (a.has("replay"))
    {
        ReplayFile r;
        std::string err;
        if (!parse_replay(e, read_file(a.get("replay")), r, err))
        {
            fprintf(stderr, "replay parse error: %s\n", err.c_str());
            return 2;
        }
        if (cfg.prop.empty())
            cfg.prop = r.prop;
        cfg.tier = r.tier.empty() ? cfg.tier : r.tier;
        if (r.is_range)
        {
            // re-execute runs from..to of that batch seed in this fresh process
            a.kv.erase("replay");
            a.kv["range-mode"] = "1";
            a.kv["from"] = std::to_string(r.range_from);
            a.kv["to"] = std::to_string(r.range_to + 1);
            a.kv["seed"] = std::to_string(r.seed);
            a.kv["expect-class"] = r.expect.cls;
            a.kv["expect-sig"] = r.expect.sig;
            cfg.batch_seed = r.seed;
            goto batch;
        }
        alarm(60);
        Outcome o = e.execute(r.plan, cfg);
        alarm(0);
        if (a.has("verbose"))
            fputs(plan_to_string(e, r.plan).c_str(), stdout);
        if (!o.violated)
        {
            printf("REPLAY no-violation hash=%016" PRIx64 "\n", o.hash);
            return 0;
        }
        printf("REPLAY violation class=%s at_op=%d sig=\"%s\" hash=%016" PRIx64 " detail=\"%s\"\n",
               o.v.cls.c_str(), o.v.op, esc(o.v.sig).c_str(), o.hash, esc(o.v.detail).c_str());
        if (r.expect.cls.empty() || o.v.same_class(r.expect))
            return 1;
        return 3;
    }

    // ---------------------------------------------------------- minimise a crashing plan (forked children)
    if (a.has("minimise-crash"))
    {
        ReplayFile r;
        std::string err;
        if (!parse_replay(e, read_file(a.get("minimise-crash")), r, err))
        {
            fprintf(stderr, "plan parse error: %s\n", err.c_str());
            return 2;
        }
        if (cfg.prop.empty())
            cfg.prop = r.prop;
        Tester t{ e, cfg, Violation(), true };
        Violation v = t.run(r.plan);
        if (v.cls.empty())
        {
            puts("CRASH-NOT-REPRODUCED");
            return 2;
        }
        t.want = v;
        // determinism gate: the same plan must die the same way twice
        Violation v2 = t.run(r.plan);
        if (!(v2.cls == v.cls))
        {
            printf("HARNESS-NONDETERMINISM crash classes differ: %s vs %s\n", v.cls.c_str(),
                   v2.cls.c_str());
            return 2;
        }
        // a hanging candidate costs a watchdog period: keep that search short
        bool slow = v.cls.size() >= 5 && v.cls.compare(v.cls.size() - 5, 5, "/hang") == 0;
        Plan m = minimise(e, cfg, r.plan, t, slow ? 24 : 600);
        r.plan = m;
        r.expect = v;
        r.expect.op = -1;
        std::string out = a.get("out");
        write_file(out, replay_to_string(e, r));
        printf("VIOL prop=%s class=%s sig=\"%s\" ops=%zu execs=%" PRIu64 " replay=%s run=%" PRId64
               "\n",
               cfg.prop.c_str(), v.cls.c_str(), esc(v.sig).c_str(), m.ops.size(), t.execs,
               out.c_str(), r.run);
        return 0;
    }

batch:
    // ---------------------------------------------------------- batch of runs
    uint64_t from = static_cast<uint64_t>(a.geti("from", 0));
    uint64_t to = static_cast<uint64_t>(a.geti("to", 1));
    std::string outdir = a.get("outdir", "replays/" + cfg.prop);
    bool isolate = a.has("isolate"); // write every plan before executing it
    std::string planfile = a.get("planfile", outdir + "/current.plan");
    bool dump = a.has("dump-hashes");
    bool range_mode = a.has("range-mode"); // report violations per run, no dedupe, no minimisation
    std::string expect_cls = a.get("expect-class"), expect_sig = a.get("expect-sig");
    int range_hit = 0;
    std::string hashfile = a.get("hashfile");
    uint64_t maxpairs = static_cast<uint64_t>(a.geti("pairs", cfg.tier == "thorough" ? 4 : 1));
    const size_t HASH_CAP = 2000000;
    time_t deadline = static_cast<time_t>(a.geti("deadline", 0)); // wall-clock cap of the batch; never feeds a run
    mkdirs(outdir);

    std::unordered_set<uint64_t> distinct;
    bool hash_capped = false;
    std::set<std::pair<std::string, std::string>> seen_classes;
    std::vector<std::string> samples;
    uint64_t evals = 0, steps = 0, simtime = 0, runs = 0;
    bool fault_arm_prop = e.has_fault_arm(cfg.prop);
    int rc = 0;

    auto note = [&](const Outcome& o) {
        ++evals;
        steps += o.steps;
        simtime += o.sim_time_ns;
        if (o.nontrivial)
        {
            if (distinct.size() < HASH_CAP)
                distinct.insert(o.hash);
            else
                hash_capped = true;
        }
    };

    auto handle_violation = [&](uint64_t i, uint64_t seed, const Plan& plan, const Outcome& o) {
        if (!e.owns(cfg.prop, o.v.cls))
        {
            c_foreign++;
            return;
        }
        if (range_mode)
        {
            printf("RANGE-VIOL run=%" PRIu64 " class=%s sig=\"%s\" detail=\"%s\"\n", i, o.v.cls.c_str(),
                   esc(o.v.sig).c_str(), esc(o.v.detail).c_str());
            if (i + 1 == to && o.v.cls == expect_cls && (expect_sig.empty() || o.v.sig == expect_sig))
                range_hit = 1;
            return;
        }
        auto key = std::make_pair(o.v.cls, o.v.sig);
        if (seen_classes.count(key))
        {
            printf("VIOL-AGAIN class=%s sig=\"%s\" run=%" PRIu64 "\n", o.v.cls.c_str(),
                   esc(o.v.sig).c_str(), i);
            return;
        }
        seen_classes.insert(key);
        // gate (a): same plan + choices must reproduce the same hash and class in-process
        Plan p2 = plan;
        if (e.threaded())
            p2.choices = o.choices;
        Outcome again = e.execute(p2, cfg);
        if (!again.violated || !again.v.same_class(o.v) || again.hash != o.hash)
        {
            // Re-executing the same plan in this process gives something else: the code under test (or
            // the harness) carries state from one run to the next.  The driver settles it in fresh
            // processes: the plan alone, and failing that the range of runs from..i of this worker.
            ReplayFile nd;
            nd.engine = e.name();
            nd.prop = cfg.prop;
            nd.tier = cfg.tier;
            nd.seed = cfg.batch_seed;
            nd.run = static_cast<int64_t>(i);
            nd.plan = p2;
            nd.expect = o.v;
            char ndname[512];
            snprintf(ndname, sizeof ndname, "%s/nondet-s%" PRIu64 "r%" PRIu64 ".plan", outdir.c_str(), cfg.batch_seed, i);
            write_file(ndname, replay_to_string(e, nd));
            printf("NONDET run=%" PRIu64 " from=%" PRIu64 " class=%s sig=\"%s\" plan=%s first=%016" PRIx64 " second=%s/%016" PRIx64 "\n",
                   i, from, o.v.cls.c_str(), esc(o.v.sig).c_str(), ndname, o.hash,
                   again.violated ? again.v.cls.c_str() : "none", again.hash);
            seen_classes.erase(key);
            return;
        }
        Tester t{ e, cfg, o.v, false };
        ReplayFile meta;
        meta.engine = e.name();
        meta.prop = cfg.prop;
        meta.tier = cfg.tier;
        meta.seed = cfg.batch_seed;
        meta.run = static_cast<int64_t>(i);
        if (isolate)
        {
            t.planfile = planfile;
            t.meta = &meta;
        }
        Plan m = minimise(e, cfg, p2, t);
        Outcome fin = e.execute(m, cfg);
        ReplayFile r;
        r.engine = e.name();
        r.prop = cfg.prop;
        r.tier = cfg.tier;
        r.seed = cfg.batch_seed;
        r.run = static_cast<int64_t>(i);
        r.plan = m;
        r.expect = fin.violated ? fin.v : o.v;
        char name[512];
        snprintf(name, sizeof name, "%s/%s-%s-s%" PRIu64 "r%" PRIu64 ".replay", outdir.c_str(),
                 sanitise(o.v.cls.substr(o.v.cls.find('/') + 1)).c_str(),
                 sanitise(o.v.sig).substr(0, 60).c_str(), cfg.batch_seed, i);
        write_file(name, replay_to_string(e, r));
        // the unminimised plan is kept as well: if the minimised one turns out to depend on state that
        // earlier runs of this process left behind, the driver starts over from it in fresh processes
        ReplayFile orig = r;
        orig.plan = p2;
        orig.expect = o.v;
        std::string oname = std::string(name) + ".orig";
        write_file(oname, replay_to_string(e, orig));
        printf("VIOL prop=%s class=%s sig=\"%s\" ops=%zu execs=%" PRIu64 " replay=%s run=%" PRIu64
               " runseed=%" PRIu64 " from=%" PRIu64 " orig=%s\n",
               cfg.prop.c_str(), o.v.cls.c_str(), esc(o.v.sig).c_str(), m.ops.size(), t.execs,
               name, i, seed, from, oname.c_str());
    };

    auto exec = [&](const Plan& p, uint64_t i) -> Outcome {
        alarm(60); // the watchdog covers one execution, not a whole run with all its fault variants
        if (isolate)
        {
            ReplayFile r;
            r.engine = e.name();
            r.prop = cfg.prop;
            r.tier = cfg.tier;
            r.seed = cfg.batch_seed;
            r.run = static_cast<int64_t>(i);
            r.plan = p;
            write_file(planfile, replay_to_string(e, r));
        }
        return e.execute(p, cfg);
    };

    for (uint64_t i = from; i < to && rc == 0; i++)
    {
        if (deadline && (i & 63) == 0 && time(nullptr) > deadline)
        {
            printf("DEADLINE stopped at %" PRIu64 "\n", i);
            break;
        }
        if (runs && runs % 4000 == 0) // cumulative; the driver keeps the last one per process
            print_stats(e, evals, runs, distinct.size(), steps, simtime, samples, hash_capped);
        printf("BEGIN %" PRIu64 "\n", i);
        alarm(30);
        ++runs;
        uint64_t seed = run_seed(cfg, e, i);
        Rng rng(seed);
        int arm = fault_arm_prop ? static_cast<int>(i & 1) : 0;
        Plan plan = e.generate(rng, cfg, arm);
        Outcome base = exec(plan, i);
        c_runs_free++;
        note(base);
        if (dump)
            printf("H %" PRIu64 " %016" PRIx64 " %s\n", i, base.hash,
                   base.violated ? base.v.cls.c_str() : "ok");
        if (samples.size() < 1 && plan.ops.size() >= 3)
            samples.push_back(plan_to_string(e, plan));
        if (base.violated)
        {
            handle_violation(i, seed, plan, base);
            continue;
        }
        if (arm != 1)
            continue;
        // ---- fault arm: enumerate every single-fault position of one operation of this history
        std::vector<size_t> cand_ops;
        for (size_t k = 0; k < base.sites.size() && k < plan.ops.size(); k++)
        {
            int total = 0;
            for (int fk = 1; fk < FK_N; fk++)
                if (e.fault_ok(plan.ops[k], fk))
                    total += base.sites[k][fk];
            if (total > 0)
                cand_ops.push_back(k);
        }
        if (cand_ops.empty())
            continue;
        // all ops in thorough tier; one PRNG-chosen op (plus the last one) in quick
        std::vector<size_t> chosen;
        if (cfg.tier == "thorough")
            chosen = cand_ops;
        else
        {
            chosen.push_back(cand_ops[rng.below(cand_ops.size())]);
            if (cand_ops.back() != chosen[0] && rng.chance(1, 2))
                chosen.push_back(cand_ops.back());
        }
        bool stop = false;
        Plan threaded_base = plan;
        if (e.threaded())
            threaded_base.choices = base.choices;
        for (size_t j : chosen)
        {
            for (int fk = 1; fk < FK_N && !stop; fk++)
            {
                if (!e.fault_ok(plan.ops[j], fk))
                    continue;
                int total = base.sites[j][fk];
                int cap = e.max_sites(cfg.tier);
                int ns = std::min(total, cap);
                int phase = total > cap ? static_cast<int>(rng.below(static_cast<uint64_t>(total / cap))) : 0;
                for (int s0 = 0; s0 < ns && !stop; s0++)
                {
                    // all positions when they fit the cap, otherwise evenly spread over [0,total)
                    int s = total > cap ? std::min(total - 1, s0 * (total / cap) + phase) : s0;
                    Plan fp = threaded_base;
                    fp.ops[j].fkind = fk;
                    fp.ops[j].fidx = s;
                    Outcome o = exec(fp, i);
                    c_runs_fault++;
                    (fk == FK_ALLOC ? c_alloc_sites : c_throw_sites)++;
                    note(o);
                    if (samples.size() < 2 && fp.ops.size() >= 3)
                        samples.push_back(plan_to_string(e, fp));
                    if (o.violated)
                    {
                        handle_violation(i, seed, fp, o);
                        stop = true;
                    }
                }
            }
            if (stop)
                break;
        }
        // ---- sampled fault pairs (two faults in two different operations of the history)
        for (uint64_t pr = 0; pr < maxpairs && !stop && cand_ops.size() >= 2; pr++)
        {
            Plan fp = threaded_base;
            size_t x = cand_ops[rng.below(cand_ops.size())], y = cand_ops[rng.below(cand_ops.size())];
            if (x == y)
                continue;
            for (size_t j : { x, y })
            {
                std::vector<int> kinds;
                for (int fk = 1; fk < FK_N; fk++)
                    if (e.fault_ok(plan.ops[j], fk) && base.sites[j][fk] > 0)
                        kinds.push_back(fk);
                if (kinds.empty())
                    continue;
                int fk = kinds[rng.below(kinds.size())];
                fp.ops[j].fkind = fk;
                fp.ops[j].fidx = static_cast<int>(rng.below(static_cast<uint64_t>(base.sites[j][fk])));
            }
            Outcome o = exec(fp, i);
            c_runs_fault++;
            c_pairs++;
            note(o);
            if (o.violated)
            {
                handle_violation(i, seed, fp, o);
                stop = true;
            }
        }
    }
    alarm(0);
    if (!hashfile.empty())
    {
        std::vector<uint64_t> v(distinct.begin(), distinct.end());
        std::ofstream f(hashfile, std::ios::binary | std::ios::trunc);
        f.write(reinterpret_cast<const char*>(v.data()), static_cast<std::streamsize>(v.size() * 8));
    }
    if (range_mode)
    {
        printf("RANGE-DONE hit=%d\n", range_hit);
        return range_hit ? 1 : 0;
    }
    print_stats(e, evals, runs, distinct.size(), steps, simtime, samples, hash_capped);
    printf("DONE %" PRIu64 " %" PRIu64 "\n", from, to);
    return rc;
}

} // namespace sim
