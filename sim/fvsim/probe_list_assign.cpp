// op-availability probe: assignment from a braced list
#include <memory>
#include <nitro/lang/fixed_vector.hpp>
struct E
{
    int v = 0;
};
void probe(nitro::lang::fixed_vector<E>& v, const E& a, const E& b)
{
    v = { a, b };
}
