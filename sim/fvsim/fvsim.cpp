// fvsim: nitro::lang::fixed_vector<T> against a bounded-sequence reference model (C07,
// fault-free arm) and under enumerated element-operation / allocation faults (C06).
// DESIGN.md section 3.2.
#include "../core/sim.hpp"

#include <nitro/lang/fixed_vector.hpp>
#include <nitro/lang/reverse.hpp>

#include <memory>
#include <unordered_map>

using namespace sim;

#ifndef FV_HAVE_INSERT_LVALUE
#define FV_HAVE_INSERT_LVALUE 0
#endif
#ifndef FV_HAVE_LIST_ASSIGN
#define FV_HAVE_LIST_ASSIGN 1
#endif

namespace
{
Counter p_append_full("probe.append_on_full");
Counter p_erase_mid("probe.erase_in_the_middle");
Counter p_erase_foreign("probe.erase_position_of_another_container");
Counter p_no_args("probe.emplace_back_without_arguments");
Counter p_append_self_rvalue("probe.append_rvalue_of_own_element");
Counter p_append_self_rvalue_full("probe.append_rvalue_of_own_element_refused");
Counter p_emplace_mid("probe.emplace_before_existing");
Counter p_pop_empty("probe.pop_on_empty");
Counter p_at_eq_size("probe.checked_access_at_size");
Counter p_range_overflow("probe.range_does_not_fit");
Counter p_moved_from_reuse("probe.moved_from_container_reassigned");
Counter p_copy_then_mutate("probe.mutation_with_live_copy");
Counter p_cap0("probe.capacity_zero_container");
Counter p_self_assign("probe.self_copy_assignment");
Counter p_append_self("probe.append_of_own_range");
Counter p_two_args("probe.emplace_with_two_constructor_arguments");
Counter p_reverse_source("probe.range_from_reverse_iterators");
Counter p_range_overwrite("probe.range_insert_before_end");
Counter p_emplace_alias("probe.emplace_argument_aliases_own_element");
Counter p_moved_from_walk("probe.moved_from_container_observed");
Counter p_fault_strong("probe.fault_in_single_element_op");
Counter p_fault_basic("probe.fault_in_multi_element_op");
Counter p_fault_ctor("probe.fault_in_constructor");
Counter p_riter("probe.reverse_iteration_nonempty");
Counter p_elem[4] = { Counter("elem.Tracked.runs"), Counter("elem.MoveOnly.runs"),
                      Counter("elem.CopyOnly.runs"), Counter("elem.Pod.runs") };

// ---------------------------------------------------------------- instrumented elements
enum Origin
{
    O_DEFAULT = 0,
    O_CALLER = 1,
    O_MOVED = 2
};
constexpr uint32_t ALIVE = 0xA11CE5ED, DEAD = 0xDEADDEAD;
constexpr int HUSK = -2;
constexpr int DEFAULTED = -3; // model value of an element created by emplace_back() without arguments

enum SiteTag
{
    ST_DEFAULT_CTOR = 1,
    ST_VALUE_CTOR,
    ST_COPY_CTOR,
    ST_MOVE_CTOR,
    ST_COPY_ASSIGN,
    ST_MOVE_ASSIGN
};

struct Registry
{
    int fired_site = 0; // which element operation the injected throw came from
    std::unordered_map<const void*, uint32_t> live;
    uint32_t next_serial = 1;
    bool has_pending = false;
    Violation pending;
    uint64_t ops = 0;
    void reset()
    {
        live.clear();
        next_serial = 1;
        has_pending = false;
        pending = Violation();
        ops = 0;
        fired_site = 0;
    }
    void flag(const char* cls, const std::string& detail)
    {
        if (has_pending)
            return;
        has_pending = true;
        pending.cls = cls;
        pending.detail = detail;
    }
};
Registry g_reg;

inline void tsite(int tag)
{
    bool before = fctl().fired;
    try
    {
        throw_site();
    }
    catch (...)
    {
        if (!before)
            g_reg.fired_site = tag;
        throw;
    }
}

struct ElemCore
{
    uint32_t magic;
    int32_t id;
    int32_t origin;
    uint32_t serial;
    void born(int v, int org)
    {
        NoFault nf;
        ++g_reg.ops;
        auto it = g_reg.live.find(this);
        if (it != g_reg.live.end())
            g_reg.flag("C06/construct-over-live", "object constructed over live element serial " +
                                                      std::to_string(it->second));
        serial = g_reg.next_serial++;
        g_reg.live[this] = serial;
        magic = ALIVE;
        id = v;
        origin = org;
    }
    void die()
    {
        NoFault nf;
        ++g_reg.ops;
        auto it = g_reg.live.find(this);
        if (it == g_reg.live.end() || magic != ALIVE)
            g_reg.flag("C06/double-destroy", "destructor ran on an object that is not live");
        else
            g_reg.live.erase(it);
        magic = DEAD;
    }
    void take(ElemCore& o)
    {
        id = o.id;
        origin = o.origin;
        o.origin = O_MOVED;
        o.id = HUSK;
    }
    void copy(const ElemCore& o)
    {
        id = o.id;
        origin = o.origin;
    }
    bool alive() const
    {
        NoFault nf;
        if (magic != ALIVE)
            return false;
        auto it = g_reg.live.find(this);
        return it != g_reg.live.end() && it->second == serial;
    }
};

// set around emplace_back() without arguments: the value-initialised temporary that becomes the new
// element is the caller's element (unlike the value-initialised slots of the array)
bool g_requested_default = false;

struct Tracked : ElemCore
{
    Tracked()
    {
        tsite(ST_DEFAULT_CTOR);
        if (g_requested_default)
        {
            g_requested_default = false;
            born(DEFAULTED, O_CALLER);
        }
        else
            born(-1, O_DEFAULT);
    }
    explicit Tracked(int v)
    {
        tsite(ST_VALUE_CTOR);
        born(v, O_CALLER);
    }
    // constructing from two arguments is NOT the same as constructing from a list of two values
    Tracked(int a, int b)
    {
        tsite(ST_VALUE_CTOR);
        born((a + b) % 8, O_CALLER);
    }
    Tracked(std::initializer_list<int> l)
    {
        tsite(ST_VALUE_CTOR);
        born(static_cast<int>(100 + l.size()), O_CALLER);
    }
    Tracked(const Tracked& o)
    {
        tsite(ST_COPY_CTOR);
        born(o.id, o.origin);
    }
    Tracked(Tracked&& o)
    {
        tsite(ST_MOVE_CTOR);
        born(-1, O_DEFAULT);
        take(o);
    }
    Tracked& operator=(const Tracked& o)
    {
        tsite(ST_COPY_ASSIGN);
        copy(o);
        return *this;
    }
    Tracked& operator=(Tracked&& o)
    {
        tsite(ST_MOVE_ASSIGN);
        if (this != &o)
            take(o);
        return *this;
    }
    ~Tracked()
    {
        die();
    }
    static constexpr bool copyable = true;
    static constexpr int flavor = 0;
};

struct MoveOnly : ElemCore
{
    MoveOnly()
    {
        tsite(ST_DEFAULT_CTOR);
        born(-1, O_DEFAULT);
    }
    explicit MoveOnly(int v)
    {
        tsite(ST_VALUE_CTOR);
        born(v, O_CALLER);
    }
    MoveOnly(const MoveOnly&) = delete;
    MoveOnly& operator=(const MoveOnly&) = delete;
    MoveOnly(MoveOnly&& o)
    {
        tsite(ST_MOVE_CTOR);
        born(-1, O_DEFAULT);
        take(o);
    }
    MoveOnly& operator=(MoveOnly&& o)
    {
        tsite(ST_MOVE_ASSIGN);
        if (this != &o)
            take(o);
        return *this;
    }
    ~MoveOnly()
    {
        die();
    }
    static constexpr bool copyable = false;
    static constexpr int flavor = 1;
};

struct CopyOnly : ElemCore
{
    CopyOnly()
    {
        tsite(ST_DEFAULT_CTOR);
        born(-1, O_DEFAULT);
    }
    explicit CopyOnly(int v)
    {
        tsite(ST_VALUE_CTOR);
        born(v, O_CALLER);
    }
    CopyOnly(const CopyOnly& o)
    {
        tsite(ST_COPY_CTOR);
        born(o.id, o.origin);
    }
    CopyOnly& operator=(const CopyOnly& o)
    {
        tsite(ST_COPY_ASSIGN);
        copy(o);
        return *this;
    }
    CopyOnly& operator=(CopyOnly&&) = delete; // not move-assignable: reaches the copy `replace` overload
    ~CopyOnly()
    {
        die();
    }
    static constexpr bool copyable = true;
    static constexpr int flavor = 2;
};

// a trivially copyable element (implementations may take memcpy/memmove short cuts for those).
// Value-initialised storage reads as origin DEFAULT; there is nothing to count or to throw.
struct Pod
{
    int32_t id;
    int32_t origin;
    Pod() = default;
    explicit Pod(int v) : id(v), origin(O_CALLER)
    {
    }
    bool alive() const
    {
        return true;
    }
    static constexpr bool copyable = true;
    static constexpr int flavor = 3;
};
static_assert(std::is_trivially_copyable<Pod>::value, "Pod must stay trivially copyable");

// ---------------------------------------------------------------- operations
enum Kind
{
    K_CONSTRUCT,
    K_CONSTRUCT_RANGE,
    K_CONSTRUCT_LIST,
    K_COPY_CONSTRUCT,
    K_MOVE_CONSTRUCT,
    K_COPY_ASSIGN,
    K_MOVE_ASSIGN,
    K_LIST_ASSIGN,
    K_EMPLACE_BACK,
    K_INSERT_LVALUE,
    K_INSERT_RVALUE,
    K_PUSH_BACK,
    K_PUSH_BACK_RANGE,
    K_INSERT_RANGE,
    K_EMPLACE_POS,
    K_ERASE,
    K_POP_BACK,
    K_AT,
    K_AT_CONST,
    K_GET,
    K_INDEX_OPS,
    K_ITERATE,
    K_RITERATE,
    K_DATA,
    K_DESTROY,
    K_WRITE,
    K_MOVED_FROM_OBSERVE,
    K_APPEND_SELF, // v.push_back(v.begin(), v.end()): the source range lies in the container itself
    K_N
};

const std::vector<OpSchema>& fv_schema()
{
    static const std::vector<OpSchema> s = {
        { "construct", { "obj", "cap" } },
        { "construct_range", { "obj", "cap", "n", "v0" } },
        { "construct_list", { "obj", "n", "v0" } },
        { "copy_construct", { "obj", "from" } },
        { "move_construct", { "obj", "from" } },
        { "copy_assign", { "obj", "from" } },
        { "move_assign", { "obj", "from" } },
        { "list_assign", { "obj", "n", "v0" } },
        { "emplace_back", { "obj", "val", "two" } },
        { "insert_lvalue", { "obj", "val" } },
        { "insert_rvalue", { "obj", "val" } },
        { "push_back", { "obj", "val" } },
        { "push_back_range", { "obj", "n", "v0" } },
        { "insert_range", { "obj", "pos", "n", "v0" } },
        { "emplace_pos", { "obj", "pos", "val", "alias" } },
        { "erase", { "obj", "pos", "foreign" } },
        { "pop_back", { "obj" } },
        { "at", { "obj", "idx" } },
        { "at_const", { "obj", "idx" } },
        { "get", { "obj", "idx" } },
        { "index_ops", { "obj" } },
        { "iterate", { "obj" } },
        { "riterate", { "obj", "how" } },
        { "data", { "obj" } },
        { "destroy", { "obj" } },
        { "write", { "obj", "idx", "val", "how" } },
        { "moved_from_observe", { "obj" } },
        { "append_self", { "obj" } },
    };
    return s;
}

constexpr int NSLOT = 3;
constexpr int MAXCAP = 6;
constexpr int NVAL = 8;

inline int val_of(int v0, int k)
{
    return (v0 + 3 * k) % NVAL;
}

struct Model
{
    bool alive = false;
    bool moved = false;
    size_t cap = 0;
    std::vector<int> seq;
};

// argument class of an op in a given (size, cap) state: part of a violation's signature
std::string argclass(const Op& op, size_t size, size_t cap)
{
    auto idxc = [&](int64_t i) -> std::string {
        if (static_cast<size_t>(i) < size)
            return "index<size";
        if (static_cast<size_t>(i) == size)
            return size == cap ? "index==size==capacity" : "index==size";
        return static_cast<size_t>(i) >= cap ? "index>=capacity" : "index>size";
    };
    switch (op.kind)
    {
    case K_AT:
    case K_AT_CONST:
    case K_GET:
        return idxc(op.a[1]);
    case K_ERASE:
        return idxc(op.a[1]);
    case K_EMPLACE_POS:
        return std::string(size >= cap ? "full," : "") +
               (static_cast<size_t>(op.a[1]) < size ? "pos<size" :
                static_cast<size_t>(op.a[1]) == size ? "pos==size" : "pos>size");
    case K_EMPLACE_BACK:
    case K_INSERT_LVALUE:
    case K_INSERT_RVALUE:
    case K_PUSH_BACK:
        return size >= cap ? "full" : "notfull";
    case K_POP_BACK:
        return size == 0 ? "empty" : "nonempty";
    case K_PUSH_BACK_RANGE:
        return size + static_cast<size_t>(op.a[1]) > cap ? "overflow" : "fits";
    case K_INSERT_RANGE:
        return std::string(static_cast<size_t>(op.a[1]) > size ? "pos>size" : static_cast<size_t>(op.a[1]) == size ? "pos==size" : "pos<size") +
               (static_cast<size_t>(op.a[1]) + static_cast<size_t>(op.a[2]) > cap ? ",overflow" : ",fits");
    case K_CONSTRUCT_RANGE:
        return static_cast<size_t>(op.a[2]) > static_cast<size_t>(op.a[1]) ? "overflow" : "fits";
    case K_RITERATE:
        return size == 0 ? "empty" : "nonempty";
    case K_APPEND_SELF:
        return 2 * size > cap ? "overflow" : "fits";
    default:
        return "-";
    }
}

std::string make_sig(const Op& op, size_t size, size_t cap)
{
    return std::string("op=") + fv_schema()[op.kind].name + " arg=" + argclass(op, size, cap);
}

enum Res
{
    RS_OK,
    RS_RAISED,
    RS_INJECTED,
    RS_BADALLOC,
    RS_OTHER
};

template <typename F>
Res guarded(F&& f)
{
    try
    {
        FaultWindow w;
        f();
        return RS_OK;
    }
    catch (InjectedThrow&)
    {
        return RS_INJECTED;
    }
    catch (std::bad_alloc&)
    {
        return RS_BADALLOC;
    }
    catch (std::exception&)
    {
        return RS_RAISED;
    }
    catch (...)
    {
        return RS_OTHER;
    }
}

template <std::size_t... I, typename V>
auto& get_dispatch(V& v, size_t idx, std::index_sequence<I...>)
{
    using R = typename V::value_type;
    R* out = nullptr;
    bool done = false;
    (void)std::initializer_list<int>{ (idx == I && !done ? (out = &std::get<I>(v), done = true, 0) : 0)... };
    return *out;
}

template <typename T>
struct Exec
{
    using FV = nitro::lang::fixed_vector<T>;
    struct Slot
    {
        FV* p = nullptr;
        Model m;
    };
    Slot s[NSLOT];
    Outcome out;
    Fnv h;
    bool stop = false;
    int faults_fired = 0;
    int real_ops = 0;

    void fail(const char* cls, const Op& op, int opi, size_t size, size_t cap, const std::string& detail)
    {
        if (stop)
            return;
        stop = true;
        out.violated = true;
        out.v.cls = cls;
        out.v.sig = make_sig(op, size, cap);
        out.v.op = opi;
        out.v.detail = detail + " elem=" + std::to_string(T::flavor);
    }

    std::vector<T> make_values(int n, int v0)
    {
        NoFault nf;
        std::vector<T> v;
        v.reserve(static_cast<size_t>(n));
        for (int k = 0; k < n; k++)
            v.emplace_back(val_of(v0, k));
        return v;
    }

    // Compare one container with its model.  `resync`: basic-guarantee mode, the model is
    // rebuilt from the container; only the safety clauses are demanded.
    void verify(int si, const Op& op, int opi, bool resync, size_t presize, size_t precap, int target,
                int source)
    {
        Slot& sl = s[si];
        if (!sl.m.alive || stop)
            return;
        NoFault nf;
        const FV& c = *sl.p;
        size_t size = c.size(), cap = c.capacity();
        if (size > cap)
            return fail("C06/size>capacity", op, opi, presize, precap,
                        "size=" + std::to_string(size) + " capacity=" + std::to_string(cap));
        if (sl.m.moved)
            return; // state of a moved-from container is not prescribed beyond size<=capacity
        if (cap != sl.m.cap)
            return fail("C06/capacity-changed", op, opi, presize, precap,
                        "capacity=" + std::to_string(cap) + " expected=" + std::to_string(sl.m.cap));
        if (resync)
        {
            sl.m.seq.clear();
            for (size_t i = 0; i < size; i++)
            {
                const T& e = c[i];
                if (!e.alive())
                    return fail("C06/unfilled-slot-visible", op, opi, presize, precap,
                                "dead object visible at index " + std::to_string(i));
                if (e.origin == O_DEFAULT)
                    return fail("C06/unfilled-slot-visible", op, opi, presize, precap,
                                "default-constructed slot visible at index " + std::to_string(i) +
                                    " after a failed operation");
                sl.m.seq.push_back(e.origin == O_MOVED ? HUSK : e.id);
            }
            return;
        }
        const char* content_cls = "C07/contents";
        const char* size_cls = "C07/size";
        if (si != target && si != source)
            content_cls = size_cls = "C07/copy-not-independent";
        else if (si == target && (op.kind == K_MOVE_CONSTRUCT || op.kind == K_MOVE_ASSIGN))
            content_cls = size_cls = "C07/move-lost-elements";
        else if (si == target && (op.kind == K_COPY_ASSIGN || op.kind == K_LIST_ASSIGN))
            content_cls = size_cls = "C07/assign-no-effect";
        else if (si == target && fctl().fired)
            content_cls = size_cls = "C06/fault:strong-guarantee";
        else if (si == target && op.kind != K_WRITE &&
                 argclass(op, presize, precap).find("full") == 0)
            content_cls = size_cls = "C06/refusal-changed-state";
        else if (si == target && (argclass(op, presize, precap) == "empty" ||
                                  argclass(op, presize, precap).find("index==size") == 0 ||
                                  argclass(op, presize, precap).find("index>") == 0))
            content_cls = size_cls = "C06/refusal-changed-state";
        if (size != sl.m.seq.size())
            return fail(size_cls, op, opi, presize, precap,
                        "slot " + std::to_string(si) + " size=" + std::to_string(size) +
                            " model=" + std::to_string(sl.m.seq.size()));
        if (c.empty() != (size == 0))
            return fail("C07/size", op, opi, presize, precap, "empty() disagrees with size()");
        size_t walked = 0;
        for (auto it = c.begin(); it != c.end(); ++it, ++walked)
        {
            if (walked >= size)
                return fail("C07/forward-iteration", op, opi, presize, precap, "begin..end longer than size");
            if (&*it != &c[walked])
                return fail("C07/forward-iteration", op, opi, presize, precap, "iterator address differs from operator[]");
        }
        if (walked != size)
            return fail("C07/forward-iteration", op, opi, presize, precap,
                        "begin..end visited " + std::to_string(walked) + " of " + std::to_string(size));
        for (size_t i = 0; i < size; i++)
        {
            const T& e = c[i];
            if (!e.alive())
                return fail("C06/unfilled-slot-visible", op, opi, presize, precap,
                            "dead object visible at index " + std::to_string(i));
            if (e.origin == O_DEFAULT)
                return fail("C06/unfilled-slot-visible", op, opi, presize, precap,
                            "slot " + std::to_string(si) + " default-constructed slot visible at index " +
                                std::to_string(i));
            int got = e.origin == O_MOVED ? HUSK : e.id;
            if (got != sl.m.seq[i])
                return fail(content_cls, op, opi, presize, precap,
                            "slot " + std::to_string(si) + " [" + std::to_string(i) + "]=" +
                                std::to_string(got) + " model=" + std::to_string(sl.m.seq[i]));
            if (c.data() + i != &e)
                return fail("C07/contents", op, opi, presize, precap, "data()+i differs from &operator[](i)");
        }
    }

    void destroy_slot(int si)
    {
        if (!s[si].m.alive)
            return;
        {
            NoFault nf;
            delete s[si].p;
        }
        s[si].p = nullptr;
        s[si].m = Model();
    }

    // returns whether op did anything (for nontriviality)
    void step(const Op& op, int opi)
    {
        int si = static_cast<int>(((op.a[0] % NSLOT) + NSLOT) % NSLOT);
        Slot& sl = s[si];
        size_t presize = sl.m.alive && !sl.m.moved ? sl.m.seq.size() : 0;
        size_t precap = sl.m.alive ? sl.m.cap : 0;
        FaultCtl& f = fctl();
        f.armed_kind = op.fkind;
        f.armed_idx = op.fidx;
        f.count[FK_ALLOC] = f.count[FK_THROW] = 0;
        f.fired = false;
        g_reg.fired_site = 0;
        Res res = RS_OK;
        bool must_raise = false;
        bool executed = true;
        bool resync = false;        // multi-element op failed: basic guarantee only
        bool is_ctor = false;       // failed constructor: object does not exist
        bool may_raise = false;     // raising is permitted but not required
        int source = -1;
        Model expect = sl.m; // model after a successful op
        h.add(static_cast<uint64_t>(op.kind));
        h.add(static_cast<uint64_t>(si));

        auto normal = [&](const Slot& x) { return x.m.alive && !x.m.moved; };

        switch (op.kind)
        {
        case K_CONSTRUCT:
        {
            destroy_slot(si);
            size_t cap = static_cast<size_t>(op.a[1] % (MAXCAP + 1));
            is_ctor = true;
            FV* np = nullptr;
            res = guarded([&] { np = new FV(cap); });
            if (res == RS_OK)
            {
                sl.p = np;
                expect = Model{ true, false, cap, {} };
                if (cap == 0)
                    p_cap0++;
            }
            presize = 0;
            precap = cap;
            break;
        }
        case K_CONSTRUCT_RANGE:
        {
            destroy_slot(si);
            size_t cap = static_cast<size_t>(op.a[1] % (MAXCAP + 1));
            int n = static_cast<int>(op.a[2] % (MAXCAP + 2));
            is_ctor = true;
            must_raise = static_cast<size_t>(n) > cap;
            if (must_raise)
                p_range_overflow++;
            FV* np = nullptr;
            if constexpr (T::copyable)
            {
                std::vector<T> vals = make_values(n, static_cast<int>(op.a[3]));
                if constexpr (T::flavor == 2)
                {
                    // (a type whose move assignment is deleted can only be read through a const source)
                    const std::vector<T>& cvals = vals;
                    res = guarded([&] { np = new FV(cap, cvals); });
                }
                else
                    res = guarded([&] { np = new FV(cap, vals); });
                // a named source range is copied from, not taken over
                for (int k = 0; k < n && res == RS_OK; k++)
                    if (vals[static_cast<size_t>(k)].origin == O_MOVED || vals[static_cast<size_t>(k)].id != val_of(static_cast<int>(op.a[3]), k))
                    {
                        fail("C07/contents", op, opi, presize, precap, "constructing from a named range left its element " + std::to_string(k) + " modified (moved from)");
                        break;
                    }
            }
            else
            {
                executed = false;
                break;
            }
            if (res == RS_OK)
            {
                sl.p = np;
                expect = Model{ true, false, cap, {} };
                for (int k = 0; k < n; k++)
                    expect.seq.push_back(val_of(static_cast<int>(op.a[3]), k));
            }
            presize = 0;
            precap = cap;
            break;
        }
        case K_CONSTRUCT_LIST:
        {
            if constexpr (T::copyable)
            {
                destroy_slot(si);
                int n = static_cast<int>(op.a[1] % 4);
                int v0 = static_cast<int>(op.a[2]);
                is_ctor = true;
                FV* np = nullptr;
                std::vector<T> vals = make_values(3, v0);
                res = guarded([&] {
                    switch (n)
                    {
                    case 0:
                        np = new FV(std::initializer_list<T>{});
                        break;
                    case 1:
                        np = new FV{ vals[0] };
                        break;
                    case 2:
                        np = new FV{ vals[0], vals[1] };
                        break;
                    default:
                        np = new FV{ vals[0], vals[1], vals[2] };
                        break;
                    }
                });
                if (res == RS_OK)
                {
                    sl.p = np;
                    expect = Model{ true, false, static_cast<size_t>(n), {} };
                    for (int k = 0; k < n; k++)
                        expect.seq.push_back(val_of(v0, k));
                }
                presize = 0;
                precap = static_cast<size_t>(n);
            }
            else
                executed = false;
            break;
        }
        case K_COPY_CONSTRUCT:
        case K_MOVE_CONSTRUCT:
        {
            source = static_cast<int>(((op.a[1] % NSLOT) + NSLOT) % NSLOT);
            if (source == si || !normal(s[source]) || (op.kind == K_COPY_CONSTRUCT && !T::copyable))
            {
                executed = false;
                break;
            }
            destroy_slot(si);
            is_ctor = true;
            FV* np = nullptr;
            if (op.kind == K_COPY_CONSTRUCT)
            {
                if constexpr (T::copyable)
                {
                    const FV& src = *s[source].p;
                    res = guarded([&] { np = new FV(src); });
                }
            }
            else
            {
                FV& src = *s[source].p;
                res = guarded([&] { np = new FV(std::move(src)); });
            }
            if (res == RS_OK)
            {
                sl.p = np;
                expect = Model{ true, false, s[source].m.cap, s[source].m.seq };
                if (op.kind == K_MOVE_CONSTRUCT)
                    s[source].m.moved = true;
            }
            else if (op.kind == K_MOVE_CONSTRUCT)
                s[source].m.moved = true; // a failed move may have taken anything
            presize = s[source].m.seq.size();
            precap = s[source].m.cap;
            break;
        }
        case K_COPY_ASSIGN:
        case K_MOVE_ASSIGN:
        {
            source = static_cast<int>(((op.a[1] % NSLOT) + NSLOT) % NSLOT);
            if (source == si && op.kind == K_COPY_ASSIGN && T::copyable && normal(sl))
            {
                // self copy-assignment leaves the container as it is
                p_self_assign++;
                if constexpr (T::copyable)
                {
                    const FV& src = *sl.p;
                    res = guarded([&] { *sl.p = src; });
                }
                expect = sl.m;
                if (res != RS_OK)
                    resync = true;
                break;
            }
            if (source == si || !sl.m.alive || !normal(s[source]) ||
                (op.kind == K_COPY_ASSIGN && !T::copyable))
            {
                executed = false;
                break;
            }
            if (sl.m.moved)
                p_moved_from_reuse++;
            if (op.kind == K_COPY_ASSIGN)
            {
                if constexpr (T::copyable)
                {
                    const FV& src = *s[source].p;
                    res = guarded([&] { *sl.p = src; });
                }
            }
            else
            {
                FV& src = *s[source].p;
                res = guarded([&] { *sl.p = std::move(src); });
            }
            // assignment may replace the capacity: target's old or the source's
            expect = Model{ true, false, sl.m.cap, s[source].m.seq };
            if (res == RS_OK)
            {
                NoFault nf;
                size_t c = sl.p->capacity();
                if (c == s[source].m.cap || (c == sl.m.cap && !sl.m.moved && c >= s[source].m.seq.size()))
                    expect.cap = c;
                else
                    expect.cap = s[source].m.cap;
                if (op.kind == K_MOVE_ASSIGN)
                    s[source].m.moved = true;
            }
            else
            {
                resync = true;
                if (op.kind == K_MOVE_ASSIGN)
                    s[source].m.moved = true;
            }
            break;
        }
        case K_LIST_ASSIGN:
        {
            if (!sl.m.alive || !T::copyable || !FV_HAVE_LIST_ASSIGN)
            {
                executed = false;
                break;
            }
            if constexpr (T::copyable)
            {
                int n = static_cast<int>(op.a[1] % 4);
                int v0 = static_cast<int>(op.a[2]);
                if (sl.m.moved)
                    p_moved_from_reuse++;
                std::vector<T> vals = make_values(3, v0);
#if FV_HAVE_LIST_ASSIGN
                res = guarded([&] {
                    switch (n)
                    {
                    case 0:
                        *sl.p = std::initializer_list<T>{};
                        break;
                    case 1:
                        *sl.p = { vals[0] };
                        break;
                    case 2:
                        *sl.p = { vals[0], vals[1] };
                        break;
                    default:
                        *sl.p = { vals[0], vals[1], vals[2] };
                        break;
                    }
                });
#endif
                expect = Model{ true, false, sl.m.cap, {} };
                for (int k = 0; k < n; k++)
                    expect.seq.push_back(val_of(v0, k));
                if (res == RS_OK)
                {
                    NoFault nf;
                    size_t c = sl.p->capacity();
                    // old capacity (if the list fits) or the list length
                    if (c == static_cast<size_t>(n) || (c == sl.m.cap && !sl.m.moved && c >= static_cast<size_t>(n)))
                        expect.cap = c;
                    else
                        expect.cap = static_cast<size_t>(n);
                }
                else if (res == RS_RAISED && !sl.m.moved && static_cast<size_t>(n) > sl.m.cap)
                {
                    // a list that cannot fit a kept capacity may raise; basic guarantee
                    may_raise = true;
                    resync = true;
                }
                else
                    resync = true;
            }
            break;
        }
        case K_EMPLACE_BACK:
        case K_INSERT_LVALUE:
        case K_INSERT_RVALUE:
        case K_PUSH_BACK:
        {
            if (!normal(sl) || ((op.kind == K_INSERT_LVALUE || op.kind == K_PUSH_BACK) && !T::copyable))
            {
                executed = false;
                break;
            }
            int v = static_cast<int>(((op.a[1] % NVAL) + NVAL) % NVAL);
            long selfsrc = -1;
            must_raise = sl.m.seq.size() >= sl.m.cap;
            if (must_raise)
                p_append_full++;
            if (op.kind == K_EMPLACE_BACK)
            {
                size_t ret = 0;
                bool two = false;
                if constexpr (T::flavor == 0)
                    two = (op.a[2] & 1) != 0;
                if constexpr (T::flavor == 0)
                {
                    if (two)
                    {
                        // emplace_back(a, b) constructs T(a, b), not T{a, b}
                        p_two_args++;
                        res = guarded([&] { ret = sl.p->emplace_back(v, 1); });
                        v = (v + 1) % 8;
                    }
                }
                bool none = false;
                if constexpr (T::flavor == 0)
                    none = !two && (op.a[2] & 2) != 0;
                if constexpr (T::flavor == 0)
                {
                    if (none)
                    {
                        // emplace_back() appends a value-initialised element, whatever the slot held before
                        p_no_args++;
                        g_requested_default = true; // the next default construction is the caller's element
                        res = guarded([&] { ret = sl.p->emplace_back(); });
                        g_requested_default = false;
                        v = DEFAULTED;
                    }
                }
                if (!two && !none && (op.a[2] & 4) != 0 && !sl.m.seq.empty())
                {
                    // the argument is an rvalue of one of the container's own elements: a refused
                    // append must not have consumed it, an accepted one leaves a moved-from element
                    selfsrc = static_cast<long>(static_cast<size_t>(op.a[2] >> 3) % sl.m.seq.size());
                    v = sl.m.seq[static_cast<size_t>(selfsrc)];
                    p_append_self_rvalue++;
                    if (must_raise)
                        p_append_self_rvalue_full++;
                    res = guarded([&] { ret = sl.p->emplace_back(std::move((*sl.p)[static_cast<size_t>(selfsrc)])); });
                }
                else if (!two && !none)
                    res = guarded([&] { ret = sl.p->emplace_back(v); });
                if (res == RS_OK && ret != sl.m.seq.size() && !must_raise)
                    fail("C07/contents", op, opi, presize, precap, "emplace_back returned wrong index");
            }
            else if (op.kind == K_INSERT_RVALUE)
            {
                NoFault nf0;
                T tmp(v);
                size_t ret = 0;
                if ((op.a[2] & 4) != 0 && !sl.m.seq.empty())
                {
                    selfsrc = static_cast<long>(static_cast<size_t>(op.a[2] >> 3) % sl.m.seq.size());
                    v = sl.m.seq[static_cast<size_t>(selfsrc)];
                    p_append_self_rvalue++;
                    if (must_raise)
                        p_append_self_rvalue_full++;
                    res = guarded([&] { ret = sl.p->insert(std::move((*sl.p)[static_cast<size_t>(selfsrc)])); });
                }
                else
                    res = guarded([&] { ret = sl.p->insert(std::move(tmp)); });
                if (res == RS_OK && !must_raise && ret != sl.m.seq.size())
                    fail("C07/contents", op, opi, presize, precap, "insert(T&&) returned wrong index");
            }
            else if (op.kind == K_INSERT_LVALUE)
            {
#if FV_HAVE_INSERT_LVALUE
                if constexpr (T::copyable)
                {
                    NoFault nf0;
                    const T tmp(v);
                    size_t ret = 0;
                    res = guarded([&] { ret = sl.p->insert(tmp); });
                    if (res == RS_OK && !must_raise && ret != sl.m.seq.size())
                        fail("C07/contents", op, opi, presize, precap, "insert(const T&) returned wrong index");
                    if (tmp.id != v || tmp.origin != O_CALLER)
                        fail("C07/contents", op, opi, presize, precap, "insert(const T&) modified its argument");
                }
#else
                fail("C07/ill-formed", op, opi, presize, precap,
                     "fixed_vector<T>::insert(const T&) does not compile for a move-assignable T");
#endif
            }
            else
            {
                if constexpr (T::copyable)
                {
                    NoFault nf0;
                    const T tmp(v);
                    size_t ret = 0;
                    res = guarded([&] { ret = sl.p->push_back(tmp); });
                    if (res == RS_OK && !must_raise && ret != sl.m.seq.size())
                        fail("C07/contents", op, opi, presize, precap, "push_back(const T&) returned wrong index");
                }
            }
            // an injected throw after the caller's rvalue (its own element) was consumed into the
            // temporary: the element was handed over by the caller, so only the basic guarantee is
            // demanded for it; a *refusal* (container full) must still leave everything untouched
            if (selfsrc >= 0 && !must_raise && res != RS_OK && f.fired)
                resync = true;
            if (!must_raise)
            {
                expect.seq.push_back(v);
                if (selfsrc >= 0 && res == RS_OK)
                {
                    NoFault nf1;
                    if ((*sl.p)[static_cast<size_t>(selfsrc)].origin == O_MOVED)
                        expect.seq[static_cast<size_t>(selfsrc)] = HUSK;
                }
            }
            break;
        }
        case K_PUSH_BACK_RANGE:
        case K_INSERT_RANGE:
        {
            if (!normal(sl))
            {
                executed = false;
                break;
            }
            bool ins = op.kind == K_INSERT_RANGE;
            int n = static_cast<int>(op.a[ins ? 2 : 1] % (MAXCAP + 2));
            int v0 = static_cast<int>(op.a[ins ? 3 : 2]);
            size_t pos = ins ? static_cast<size_t>(op.a[1] % (MAXCAP + 1)) : sl.m.seq.size();
            bool overwriting = ins && pos < sl.m.seq.size();
            if (overwriting)
                p_range_overwrite++;
            if (pos > sl.m.cap)
                pos = sl.m.cap;
            bool bad_pos = pos > sl.m.seq.size();
            bool overflow = sl.m.seq.size() + static_cast<size_t>(n) > sl.m.cap;
            must_raise = bad_pos || (overflow && n > 0);
            if (bad_pos && n == 0)
                must_raise = true;
            if (overflow)
                p_range_overflow++;
            std::vector<T> vals = make_values(n, v0);
            bool reversed = T::copyable && !ins && (op.a[1] / 8) % 2 == 1;
            std::vector<T> rvals; // the same values stored back to front: rbegin()..rend() yields the planned order
            if (reversed)
            {
                NoFault nf;
                p_reverse_source++;
                rvals.reserve(static_cast<size_t>(n));
                for (int k = n - 1; k >= 0; k--)
                    rvals.emplace_back(val_of(v0, k));
            }
            if constexpr (T::copyable)
            {
                if (ins)
                    res = guarded([&] { sl.p->insert(sl.p->begin() + pos, vals.begin(), vals.end()); });
                else if (reversed)
                    res = guarded([&] { sl.p->push_back(rvals.rbegin(), rvals.rend()); });
                else
                    res = guarded([&] { sl.p->push_back(vals.begin(), vals.end()); });
            }
            else
            {
                auto b = std::make_move_iterator(vals.begin()), e = std::make_move_iterator(vals.end());
                if (ins)
                    res = guarded([&] { sl.p->insert(sl.p->begin() + pos, b, e); });
                else
                    res = guarded([&] { sl.p->push_back(b, e); });
            }
            if (overwriting)
            {
                // range insert before end(): whether it overwrites or shifts is not fixed by the
                // property; only the safety clauses are demanded (size<=capacity, no unfilled slot
                // visible, capacity unchanged), raising is permitted when pos+n does not fit
                must_raise = false;
                may_raise = true;
                resync = true;
            }
            else if (!must_raise)
                for (int k = 0; k < n; k++)
                    expect.seq.push_back(val_of(v0, k));
            else if (!bad_pos)
                resync = res != RS_OK; // a range that does not fit: must raise, basic guarantee
            if (res != RS_OK && f.fired)
                resync = true;
            break;
        }
        case K_EMPLACE_POS:
        {
            if (!normal(sl))
            {
                executed = false;
                break;
            }
            size_t pos = static_cast<size_t>(op.a[1] % (MAXCAP + 1));
            if (pos > sl.m.seq.size())
            {
                executed = false; // not a valid position
                break;
            }
            int v = static_cast<int>(((op.a[2] % NVAL) + NVAL) % NVAL);
            must_raise = sl.m.seq.size() >= sl.m.cap;
            if (pos < sl.m.seq.size() && !must_raise)
                p_emplace_mid++;
            bool aliased = false;
            if constexpr (T::copyable)
            {
                if (op.a[3] > 0 && !sl.m.seq.empty())
                {
                    // the argument refers to an element of the container itself
                    size_t src = static_cast<size_t>(op.a[3] - 1) % sl.m.seq.size();
                    v = sl.m.seq[src];
                    aliased = true;
                    p_emplace_alias++;
                    res = guarded([&] { sl.p->emplace(sl.p->begin() + pos, (*sl.p)[src]); });
                }
            }
            if constexpr (T::flavor == 0)
            {
                if (!aliased && op.a[3] == 0 && (op.a[2] / 8) % 2 == 1)
                {
                    // emplace(pos, a, b) constructs T(a, b), not T{a, b}
                    p_two_args++;
                    aliased = true; // (argument already consumed below)
                    res = guarded([&] { sl.p->emplace(sl.p->begin() + pos, v, 1); });
                    v = (v + 1) % 8;
                }
            }
            if (!aliased)
                res = guarded([&] { sl.p->emplace(sl.p->begin() + pos, v); });
            if (!must_raise)
                expect.seq.insert(expect.seq.begin() + static_cast<long>(pos), v);
            // constructing the new element failed: nothing may have happened yet (what std::vector
            // guarantees too); a throwing move/assignment of existing elements: basic guarantee
            if (res != RS_OK && f.fired && g_reg.fired_site != ST_VALUE_CTOR && !(aliased && g_reg.fired_site == ST_COPY_CTOR))
                resync = true;
            break;
        }
        case K_ERASE:
        {
            if (!normal(sl))
            {
                executed = false;
                break;
            }
            size_t pos = static_cast<size_t>(op.a[1] % (MAXCAP + 1));
            if (pos > sl.m.cap)
                pos = sl.m.cap;
            must_raise = pos >= sl.m.seq.size();
            if (!must_raise && pos + 1 < sl.m.seq.size())
                p_erase_mid++;
            if (op.a[2] > 0)
            {
                // a position that belongs to another live container (wherever the allocator put it,
                // before or behind this one's storage): not a live element of this one
                int oi = static_cast<int>((op.a[2] - 1) % NSLOT);
                Slot& other = s[oi];
                if (oi != si && normal(other))
                {
                    size_t opos = std::min(pos, other.m.cap);
                    must_raise = true;
                    p_erase_foreign++;
                    res = guarded([&] { sl.p->erase(other.p->begin() + opos); });
                    if (res != RS_OK && f.fired)
                        resync = true;
                    break;
                }
            }
            res = guarded([&] { sl.p->erase(sl.p->begin() + pos); });
            if (!must_raise)
                expect.seq.erase(expect.seq.begin() + static_cast<long>(pos));
            if (res != RS_OK && f.fired)
                resync = true;
            break;
        }
        case K_POP_BACK:
        {
            if (!normal(sl))
            {
                executed = false;
                break;
            }
            must_raise = sl.m.seq.empty();
            if (must_raise)
                p_pop_empty++;
            res = guarded([&] { sl.p->pop_back(); });
            if (!must_raise)
                expect.seq.pop_back();
            break;
        }
        case K_AT:
        case K_AT_CONST:
        case K_GET:
        {
            if (!normal(sl))
            {
                executed = false;
                break;
            }
            size_t idx = static_cast<size_t>(op.a[1] % (MAXCAP + 2));
            must_raise = idx >= sl.m.seq.size();
            if (idx == sl.m.seq.size())
                p_at_eq_size++;
            const T* got = nullptr;
            if (op.kind == K_AT)
                res = guarded([&] { got = &sl.p->at(idx); });
            else if (op.kind == K_AT_CONST)
                res = guarded([&] { got = &static_cast<const FV&>(*sl.p).at(idx); });
            else
                res = guarded([&] { got = &get_dispatch(*sl.p, idx, std::make_index_sequence<MAXCAP + 2>()); });
            if (res == RS_OK && !must_raise)
            {
                NoFault nf;
                if (got != sl.p->data() + idx)
                    fail("C07/contents", op, opi, presize, precap, "checked access returned a different object than data()[i]");
            }
            break;
        }
        case K_INDEX_OPS:
        {
            if (!normal(sl) || sl.m.seq.empty())
            {
                executed = false;
                break;
            }
            const T *fr = nullptr, *bk = nullptr, *cfr = nullptr, *cbk = nullptr;
            res = guarded([&] {
                fr = &sl.p->front();
                bk = &sl.p->back();
                const FV& c = *sl.p;
                cfr = &c.front();
                cbk = &c.back();
            });
            if (res == RS_OK)
            {
                NoFault nf;
                const T* d = sl.p->data();
                if (fr != d || cfr != d || bk != d + sl.m.seq.size() - 1 || cbk != bk)
                    fail("C07/contents", op, opi, presize, precap, "front()/back() do not address first/last element");
            }
            break;
        }
        case K_ITERATE:
        {
            if (!normal(sl))
            {
                executed = false;
                break;
            }
            std::vector<int> seen1, seen2, seen3;
            {
                NoFault nf;
                seen1.reserve(8);
                seen2.reserve(8);
                seen3.reserve(8);
            }
            res = guarded([&] {
                NoFault nf;
                for (auto& e : *sl.p)
                    seen1.push_back(e.origin == O_MOVED ? HUSK : e.id);
                for (auto it = sl.p->cbegin(); it != sl.p->cend(); ++it)
                    seen2.push_back(it->origin == O_MOVED ? HUSK : it->id);
                const FV& c = *sl.p;
                for (auto it = c.begin(); it != c.end(); ++it)
                    seen3.push_back(it->origin == O_MOVED ? HUSK : it->id);
            });
            if (res == RS_OK)
            {
                NoFault nf;
                if (seen1 != sl.m.seq || seen2 != sl.m.seq || seen3 != sl.m.seq)
                    fail("C07/forward-iteration", op, opi, presize, precap, "forward iteration does not visit the live elements in order");
            }
            break;
        }
        case K_RITERATE:
        {
            if (!normal(sl))
            {
                executed = false;
                break;
            }
            std::vector<int> seen;
            {
                NoFault nf;
                seen.reserve(16);
            }
            int how = static_cast<int>(op.a[1] % 6);
            if (how == 4 && !T::copyable)
                how = 5;
            if (!sl.m.seq.empty())
                p_riter++;
            // bounded walk: a reverse range that never reaches its end is reported, not followed
            size_t limit = sl.m.seq.size() + 1;
            bool overrun = false;
            res = guarded([&] {
                NoFault nf;
                auto visit = [&](auto b, auto e) {
                    size_t n = 0;
                    for (auto it = b; it != e; ++it)
                    {
                        if (++n > limit)
                        {
                            overrun = true;
                            break;
                        }
                        const T& el = *it;
                        seen.push_back(el.origin == O_MOVED ? HUSK : el.id);
                    }
                };
                const FV& c = *sl.p;
                switch (how)
                {
                case 0:
                    visit(sl.p->rbegin(), sl.p->rend());
                    break;
                case 1:
                    visit(c.crbegin(), c.crend());
                    break;
                case 2:
                    visit(c.rbegin(), c.rend());
                    break;
                case 3:
                {
                    auto r = nitro::lang::reverse(*sl.p);
                    visit(r.begin(), r.end());
                    break;
                }
                case 5:
                {
                    auto r = nitro::lang::reverse(c); // const lvalue
                    visit(r.begin(), r.end());
                    break;
                }
                default:
                    if constexpr (T::copyable)
                    {
                        // reverse over a temporary: the owning proxy iterates crbegin()..crend()
                        auto r = nitro::lang::reverse(FV(*sl.p));
                        visit(r.begin(), r.end());
                    }
                    break;
                }
            });
            if (res == RS_OK)
            {
                NoFault nf;
                std::vector<int> want(sl.m.seq.rbegin(), sl.m.seq.rend());
                if (overrun || seen != want)
                    fail("C07/reverse-iteration", op, opi, presize, precap,
                         overrun ? "reverse range does not end after size() steps" :
                                   "reverse iteration does not visit the live elements in reverse order");
            }
            break;
        }
        case K_DATA:
        {
            if (!normal(sl))
            {
                executed = false;
                break;
            }
            res = guarded([&] {
                const FV& c = *sl.p;
                if (sl.p->data() != c.data())
                    throw std::logic_error("data() const/non-const differ");
            });
            break;
        }
        case K_DESTROY:
        {
            if (!sl.m.alive)
            {
                executed = false;
                break;
            }
            destroy_slot(si);
            expect = Model();
            break;
        }
        case K_WRITE:
        {
            if (!normal(sl) || sl.m.seq.empty())
            {
                executed = false;
                break;
            }
            size_t idx = static_cast<size_t>(op.a[1]) % sl.m.seq.size();
            int v = static_cast<int>(((op.a[2] % NVAL) + NVAL) % NVAL);
            int how = static_cast<int>(op.a[3] % 3);
            for (int k = 0; k < NSLOT; k++)
                if (k != si && s[k].m.alive && !s[k].m.moved && !s[k].m.seq.empty())
                {
                    p_copy_then_mutate++;
                    break;
                }
            {
                NoFault nf0;
                T tmp(v);
                res = guarded([&] {
                    NoFault nf; // the element assignment itself is the caller's, not the container's
                    T* dst = how == 0 ? &(*sl.p)[idx] : how == 1 ? &sl.p->at(idx) : (sl.p->begin() + idx);
                    if constexpr (std::is_move_assignable<T>::value)
                        *dst = std::move(tmp);
                    else
                        *dst = static_cast<const T&>(tmp);
                });
            }
            expect.seq[idx] = v;
            break;
        }
        case K_APPEND_SELF:
        {
            if (!normal(sl) || !T::copyable)
            {
                executed = false;
                break;
            }
            if constexpr (T::copyable)
            {
                size_t n = sl.m.seq.size();
                bool fits = 2 * n <= sl.m.cap;
                must_raise = !fits && n > 0;
                p_append_self++;
                res = guarded([&] { sl.p->push_back(sl.p->begin(), sl.p->end()); });
                if (fits)
                    for (size_t k = 0; k < n; k++)
                        expect.seq.push_back(sl.m.seq[k]);
                else
                    resync = res != RS_OK;
                if (res != RS_OK && f.fired)
                    resync = true;
            }
            break;
        }
        case K_MOVED_FROM_OBSERVE:
        {
            if (!sl.m.alive || !sl.m.moved)
            {
                executed = false;
                break;
            }
            p_moved_from_walk++;
            bool bad_elem = false;
            res = guarded([&] {
                NoFault nf;
                // whatever a moved-from container claims to hold must be readable
                size_t n = sl.p->size();
                (void)sl.p->capacity();
                (void)sl.p->empty();
                for (size_t i = 0; i < n && i < sl.p->capacity(); i++)
                {
                    const T& e = sl.p->at(i);
                    if (!e.alive() || e.origin == O_DEFAULT)
                        bad_elem = true;
                }
            });
            if (bad_elem)
                fail("C06/unfilled-slot-visible", op, opi, presize, precap,
                     "moved-from container exposes a slot the caller never filled");
            if (res == RS_RAISED)
                res = RS_OK; // raising on access to a moved-from container is acceptable
            break;
        }
        default:
            executed = false;
        }

        {
            // record fault sites seen inside this op's windows
            std::array<int, FK_N> st = { 0, f.count[FK_ALLOC], f.count[FK_THROW] };
            out.sites.push_back(st);
        }
        h.add(static_cast<uint64_t>(executed));
        if (!executed)
        {
            f.armed_kind = FK_NONE;
            return;
        }
        ++real_ops;
        h.add(static_cast<uint64_t>(res));
        h.add(static_cast<uint64_t>(f.fired));
        if (f.fired)
        {
            ++faults_fired;
            if (is_ctor)
                p_fault_ctor++;
            else if (resync)
                p_fault_basic++;
            else
                p_fault_strong++;
        }
        f.armed_kind = FK_NONE;
        if (stop)
            return;

        if (g_reg.has_pending)
        {
            fail(g_reg.pending.cls.c_str(), op, opi, presize, precap, g_reg.pending.detail);
            return;
        }

        // ---- outcome of the call itself
        bool by_fault = f.fired && ((res == RS_INJECTED && f.fired_kind == FK_THROW) ||
                                    (res == RS_BADALLOC && f.fired_kind == FK_ALLOC));
        if (by_fault)
        {
            // the injected exception left the operation: judged by the guarantees below
        }
        else if (res == RS_INJECTED || res == RS_BADALLOC || res == RS_OTHER)
        {
            fail("C06/fault:wrong-exception", op, opi, presize, precap,
                 "operation ended with outcome " + std::to_string(res) + " that was not injected into it");
            return;
        }
        else if (must_raise)
        {
            // (a fault absorbed on the refusal path, e.g. inside the message stream, changes nothing)
            if (res == RS_OK)
            {
                fail("C06/must-raise", op, opi, presize, precap, "operation that cannot be satisfied returned normally");
                return;
            }
        }
        else if (res == RS_RAISED && may_raise)
        {
        }
        else if (res != RS_OK)
        {
            fail(f.fired ? "C06/fault:wrong-exception" : "C07/spurious-raise", op, opi, presize, precap,
                 f.fired ? "injected fault was translated into a different exception" : "operation that can be satisfied raised");
            return;
        }

        // ---- model update
        if (res == RS_OK)
        {
            if (!must_raise && !(resync && op.kind == K_INSERT_RANGE))
                sl.m = expect;
        }
        else if (is_ctor)
        {
            sl.m = Model(); // the object never existed
            sl.p = nullptr;
        }
        if (g_reg.has_pending)
        {
            fail(g_reg.pending.cls.c_str(), op, opi, presize, precap, g_reg.pending.detail);
            return;
        }
        for (int k = 0; k < NSLOT && !stop; k++)
            verify(k, op, opi, resync && k == si, presize, precap, si, source);
        if (g_reg.has_pending && !stop)
            fail(g_reg.pending.cls.c_str(), op, opi, presize, precap, g_reg.pending.detail);
    }

    Outcome run(const Plan& plan)
    {
        g_reg.reset();
        fctl() = FaultCtl();
        atrack().enabled = true;
        atrack().reset();
        out = Outcome();
        for (size_t i = 0; i < plan.ops.size() && !stop; i++)
            step(plan.ops[i], static_cast<int>(i));
        // end of run: every container goes away; nothing may be left alive
        Op endop;
        endop.kind = K_DESTROY;
        for (int k = 0; k < NSLOT; k++)
            destroy_slot(k);
        if (!stop && g_reg.has_pending)
            fail(g_reg.pending.cls.c_str(), endop, static_cast<int>(plan.ops.size()), 0, 0, g_reg.pending.detail);
        if (!stop && atrack().live())
            fail("C06/leak", endop, static_cast<int>(plan.ops.size()), 0, 0,
                 std::to_string(atrack().live()) + " block(s) allocated by the operations were never freed");
        if (!stop && !g_reg.live.empty())
            fail("C06/leak", endop, static_cast<int>(plan.ops.size()), 0, 0,
                 std::to_string(g_reg.live.size()) + " element object(s) still alive after all containers were destroyed");
        fctl() = FaultCtl();
        h.add(out.violated);
        if (out.violated)
            h.adds(out.v.cls);
        out.hash = h.h;
        out.steps = g_reg.ops;
        out.nontrivial = real_ops >= 3;
        return out;
    }
};

class FvEngine : public Engine
{
public:
    const char* name() const override
    {
        return "fvsim";
    }
    uint64_t tag() const override
    {
        return 0xF1DEC;
    }
    const std::vector<OpSchema>& schema() const override
    {
        return fv_schema();
    }
    bool has_fault_arm(const std::string& prop) const override
    {
        return prop == "C06";
    }
    bool owns(const std::string& prop, const std::string& cls) const override
    {
        return cls.compare(0, 4, prop + "/") == 0;
    }
    std::vector<std::string> real_components() const override
    {
        return { "nitro::lang::fixed_vector<T> (all members, std::get<I>)", "nitro::lang::reverse over fixed_vector",
                 "nitro::except::raise / exception" };
    }
    std::vector<std::string> stub_components() const override
    {
        return { "element types Tracked/MoveOnly/CopyOnly (instance-counting, can throw on k-th special-member call)",
                 "global operator new (k-th allocation in an operation fails)" };
    }

    Plan generate(Rng& rng, const Config& cfg, int arm) override
    {
        Plan p;
        int elem = rng.chance(1, 6) ? 3 : static_cast<int>(rng.below(3));
        p.knobs.emplace_back("elem", elem);
        // swarm: disable a random subset of op kinds for this run
        bool enabled[K_N];
        for (int k = 0; k < K_N; k++)
            enabled[k] = !rng.chance(1, 4);
        bool avoid = !cfg.avoid.empty() && rng.chance(1, 2);
        p.knobs.emplace_back("avoid_known", avoid);
        (void)arm;
        struct G
        {
            bool alive = false, moved = false;
            size_t size = 0, cap = 0;
        } g[NSLOT];
        int nops = rng.range(2, 14);
        auto small_cap = [&] {
            static const int caps[] = { 0, 1, 1, 2, 2, 3, 3, 4, 5, 6 };
            return caps[rng.below(10)];
        };
        for (int n = 0; n < nops; n++)
        {
            Op op;
            // find a usable slot or make one
            int si = static_cast<int>(rng.below(NSLOT));
            op.a[0] = si;
            G& t = g[si];
            if (!t.alive || rng.chance(1, 12))
            {
                int c = static_cast<int>(rng.below(10));
                if (c < 5 || elem == 1)
                {
                    if (elem != 1 && c < 2)
                    {
                        op.kind = K_CONSTRUCT_RANGE;
                        op.a[1] = small_cap();
                        op.a[2] = rng.chance(1, 6) ? op.a[1] + 1 : static_cast<int64_t>(rng.below(static_cast<uint64_t>(op.a[1]) + 1));
                        op.a[3] = static_cast<int64_t>(rng.below(NVAL));
                        if (op.a[2] <= op.a[1])
                            t = G{ true, false, static_cast<size_t>(op.a[2]), static_cast<size_t>(op.a[1]) };
                        else
                            t = G();
                    }
                    else
                    {
                        op.kind = K_CONSTRUCT;
                        op.a[1] = small_cap();
                        t = G{ true, false, 0, static_cast<size_t>(op.a[1]) };
                    }
                }
                else if (c < 7)
                {
                    op.kind = K_CONSTRUCT_LIST;
                    op.a[1] = static_cast<int64_t>(rng.below(4));
                    op.a[2] = static_cast<int64_t>(rng.below(NVAL));
                    t = G{ true, false, static_cast<size_t>(op.a[1]), static_cast<size_t>(op.a[1]) };
                }
                else
                {
                    int from = static_cast<int>(rng.below(NSLOT));
                    if (from == si || !g[from].alive || g[from].moved)
                    {
                        op.kind = K_CONSTRUCT;
                        op.a[1] = small_cap();
                        t = G{ true, false, 0, static_cast<size_t>(op.a[1]) };
                    }
                    else
                    {
                        op.kind = (c < 9 && elem != 1) ? K_COPY_CONSTRUCT : K_MOVE_CONSTRUCT;
                        op.a[1] = from;
                        t = G{ true, false, g[from].size, g[from].cap };
                        if (op.kind == K_MOVE_CONSTRUCT)
                            g[from].moved = true;
                    }
                }
                p.ops.push_back(op);
                continue;
            }
            if (t.moved)
            {
                // what one may do with a moved-from container: observe, assign to it, destroy it
                int c = static_cast<int>(rng.below(4));
                int from = static_cast<int>(rng.below(NSLOT));
                bool src_ok = from != si && g[from].alive && !g[from].moved;
                if (c == 0)
                    op.kind = K_MOVED_FROM_OBSERVE;
                else if (c == 1 && src_ok)
                {
                    op.kind = (elem != 1 && rng.chance(1, 2)) ? K_COPY_ASSIGN : K_MOVE_ASSIGN;
                    op.a[1] = from;
                    t = G{ true, false, g[from].size, g[from].cap };
                    if (op.kind == K_MOVE_ASSIGN)
                        g[from].moved = true;
                }
                else if (c == 2 && elem != 1)
                {
                    op.kind = K_LIST_ASSIGN;
                    op.a[1] = static_cast<int64_t>(rng.below(4));
                    op.a[2] = static_cast<int64_t>(rng.below(NVAL));
                    t = G{ true, false, static_cast<size_t>(op.a[1]), static_cast<size_t>(op.a[1]) };
                }
                else
                {
                    op.kind = K_DESTROY;
                    t = G();
                }
                p.ops.push_back(op);
                continue;
            }
            // a normal container: weighted choice among enabled kinds
            static const int kinds[] = { K_EMPLACE_BACK, K_EMPLACE_BACK, K_EMPLACE_BACK, K_INSERT_RVALUE,
                                         K_INSERT_RVALUE, K_INSERT_LVALUE, K_PUSH_BACK, K_PUSH_BACK,
                                         K_PUSH_BACK_RANGE, K_INSERT_RANGE, K_EMPLACE_POS, K_EMPLACE_POS,
                                         K_ERASE, K_ERASE, K_POP_BACK, K_AT, K_AT_CONST, K_GET,
                                         K_INDEX_OPS, K_ITERATE, K_RITERATE, K_DATA, K_WRITE,
                                         K_COPY_ASSIGN, K_MOVE_ASSIGN, K_LIST_ASSIGN, K_DESTROY, K_APPEND_SELF };
            int kind = K_EMPLACE_BACK;
            for (int tries = 0; tries < 6; tries++)
            {
                kind = kinds[rng.below(sizeof kinds / sizeof kinds[0])];
                if (enabled[kind])
                    break;
            }
            op.kind = kind;
            auto pick_index = [&](size_t size, size_t cap) -> int64_t {
                unsigned r = static_cast<unsigned>(rng.below(100));
                if (r < 45 && size > 0)
                    return static_cast<int64_t>(rng.below(size));
                if (r < 70)
                    return static_cast<int64_t>(size);
                if (r < 88 && cap > size)
                    return static_cast<int64_t>(size + 1 + rng.below(cap - size));
                return static_cast<int64_t>(cap + rng.below(2));
            };
            switch (kind)
            {
            case K_EMPLACE_BACK:
            case K_INSERT_RVALUE:
            case K_INSERT_LVALUE:
            case K_PUSH_BACK:
                op.a[1] = static_cast<int64_t>(rng.below(NVAL));
                op.a[2] = rng.chance(1, 5) ? 1 : rng.chance(1, 6) ? 2 : rng.chance(1, 5) ? 4 + 8 * static_cast<int64_t>(rng.below(MAXCAP)) : 0;
                if (t.size < t.cap)
                    t.size++;
                break;
            case K_PUSH_BACK_RANGE:
                op.a[1] = static_cast<int64_t>(rng.below(4)) + (rng.chance(1, 4) ? 8 : 0);
                op.a[2] = static_cast<int64_t>(rng.below(NVAL));
                if (t.size + static_cast<size_t>(op.a[1] % 8) <= t.cap)
                    t.size += static_cast<size_t>(op.a[1] % 8);
                else
                    t.size = t.cap; // whatever prefix went in; executor resynchronises
                break;
            case K_INSERT_RANGE:
                op.a[1] = rng.chance(3, 5) ? static_cast<int64_t>(t.size) :
                          (rng.chance(1, 2) && t.size > 0) ? static_cast<int64_t>(rng.below(t.size)) :
                                             std::min<int64_t>(static_cast<int64_t>(t.size + 1), MAXCAP);
                op.a[2] = static_cast<int64_t>(rng.below(4));
                op.a[3] = static_cast<int64_t>(rng.below(NVAL));
                if (static_cast<size_t>(op.a[1]) == t.size)
                {
                    if (t.size + static_cast<size_t>(op.a[2]) <= t.cap)
                        t.size += static_cast<size_t>(op.a[2]);
                    else
                        t.size = t.cap;
                }
                else if (static_cast<size_t>(op.a[1]) < t.size)
                    t.size = std::min(t.cap, std::max(t.size, static_cast<size_t>(op.a[1] + op.a[2])));
                break;
            case K_EMPLACE_POS:
                op.a[1] = static_cast<int64_t>(rng.below(t.size + 1));
                op.a[2] = static_cast<int64_t>(rng.below(NVAL)) + (rng.chance(1, 5) ? 8 : 0);
                op.a[3] = rng.chance(1, 4) ? static_cast<int64_t>(1 + rng.below(MAXCAP)) : 0;
                if (t.size < t.cap)
                    t.size++;
                break;
            case K_ERASE:
                op.a[1] = std::min<int64_t>(pick_index(t.size, t.cap), static_cast<int64_t>(t.cap));
                if (rng.chance(1, 8))
                    op.a[2] = static_cast<int64_t>(1 + rng.below(NSLOT)); // position taken from another container
                else if (static_cast<size_t>(op.a[1]) < t.size)
                    t.size--;
                break;
            case K_POP_BACK:
                if (t.size)
                    t.size--;
                break;
            case K_AT:
            case K_AT_CONST:
            case K_GET:
                op.a[1] = pick_index(t.size, t.cap);
                break;
            case K_RITERATE:
                op.a[1] = static_cast<int64_t>(rng.below(6));
                break;
            case K_WRITE:
                op.a[1] = static_cast<int64_t>(rng.below(MAXCAP));
                op.a[2] = static_cast<int64_t>(rng.below(NVAL));
                op.a[3] = static_cast<int64_t>(rng.below(3));
                break;
            case K_COPY_ASSIGN:
            case K_MOVE_ASSIGN:
            {
                int from = static_cast<int>(rng.below(NSLOT));
                if (from == si && kind == K_COPY_ASSIGN && elem != 1)
                {
                    op.a[1] = from; // self copy-assignment
                    break;
                }
                if (from == si || !g[from].alive || g[from].moved)
                {
                    op.kind = K_ITERATE;
                    break;
                }
                if (elem == 1)
                    op.kind = K_MOVE_ASSIGN;
                op.a[1] = from;
                t = G{ true, false, g[from].size, g[from].cap };
                if (op.kind == K_MOVE_ASSIGN)
                    g[from].moved = true;
                break;
            }
            case K_LIST_ASSIGN:
                if (elem == 1)
                {
                    op.kind = K_ITERATE;
                    break;
                }
                op.a[1] = static_cast<int64_t>(rng.below(4));
                op.a[2] = static_cast<int64_t>(rng.below(NVAL));
                t = G{ true, false, static_cast<size_t>(op.a[1]), std::max(t.cap, static_cast<size_t>(op.a[1])) };
                break;
            case K_DESTROY:
                t = G();
                break;
            case K_APPEND_SELF:
                t.size = std::min(t.cap, 2 * t.size);
                break;
            default:
                break;
            }
            if (avoid)
            {
                // steer away from open known findings in about half the runs, so that they
                // do not mask everything that comes after them in a history
                G pre = g[si];
                (void)pre;
                std::string sg = std::string("op=") + fv_schema()[op.kind].name;
                bool hit = false;
                for (auto& a : cfg.avoid)
                    if (a.compare(0, sg.size(), sg) == 0 && (a.size() == sg.size() || a[sg.size()] == ' '))
                        hit = true;
                if (hit)
                {
                    op = Op();
                    op.kind = K_ITERATE;
                    op.a[0] = si;
                }
            }
            p.ops.push_back(op);
        }
        return p;
    }

    Outcome execute(const Plan& plan, const Config& cfg) override
    {
        Outcome o = execute_once(plan, cfg);
        if (o.violated && o.v.cls == "C06/leak" && o.v.detail.find("block(s) allocated") != std::string::npos)
            return execute_once(plan, cfg); // one-time allocations (statics) do not come back; see ownsim
        return o;
    }
    Outcome execute_once(const Plan& plan, const Config&)
    {
        int elem = static_cast<int>(plan.knob("elem", 0) % 4);
        p_elem[elem]++;
        switch (elem)
        {
        case 0:
        {
            Exec<Tracked> x;
            return x.run(plan);
        }
        case 1:
        {
            Exec<MoveOnly> x;
            return x.run(plan);
        }
        case 2:
        {
            Exec<CopyOnly> x;
            return x.run(plan);
        }
        default:
        {
            Exec<Pod> x;
            return x.run(plan);
        }
        }
    }

    void simplify(const Op& op, std::vector<Op>& out) const override
    {
        // prefer the simplest element type and simpler op kinds
        if (op.kind == K_INSERT_RVALUE || op.kind == K_PUSH_BACK || op.kind == K_INSERT_LVALUE)
        {
            Op c = op;
            c.kind = K_EMPLACE_BACK;
            out.push_back(c);
        }
        if (op.kind == K_CONSTRUCT_RANGE || op.kind == K_CONSTRUCT_LIST)
        {
            Op c;
            c.kind = K_CONSTRUCT;
            c.a[0] = op.a[0];
            c.a[1] = op.kind == K_CONSTRUCT_RANGE ? op.a[1] : op.a[1];
            out.push_back(c);
        }
    }
    bool fault_ok(const Op& op, int) const override
    {
        return op.kind != K_WRITE && op.kind != K_DESTROY;
    }
};
} // namespace

int main(int argc, char** argv)
{
    FvEngine e;
    return sim_main(argc, argv, e);
}
