// op-availability probe: does fixed_vector<T>::insert(const T&) compile for an ordinary
// (move-assignable) element type?  A hard error inside a member template body cannot be
// detected with SFINAE, so the driver compiles this translation unit on its own.
#include <memory>
#include <nitro/lang/fixed_vector.hpp>
struct E
{
    int v = 0;
};
void probe(nitro::lang::fixed_vector<E>& v, const E& e)
{
    v.insert(e);
}
