/* A real shared object for dlsim's second configuration (the wrappers forward to the real
 * loader and only count).  Built twice: -DLIBID=0 -> libsimrealA.so, -DLIBID=1 -> libsimrealB.so.
 * sim_null is defined by the linker as an absolute symbol with value 0 (--defsym). */
#ifndef LIBID
#define LIBID 0
#endif
int sim_present(int x)
{
    return x + 1 + LIBID;
}
