// dlsim: nitro::dl::dl / dl::symbol<Sig> against a simulated dynamic loader (attached with
// -Wl,--wrap=dlopen,--wrap=dlsym,--wrap=dlclose,--wrap=dlerror) and nitro::env::get against the
// real process environment.  Decides C19.  DESIGN.md section 3.6.
#include "../core/sim.hpp"

#include <nitro/dl/dl.hpp>
#include <nitro/env/get.hpp>

#include <cstdlib>

using namespace sim;

extern "C"
{
    void* __real_dlopen(const char*, int);
    void* __real_dlsym(void*, const char*);
    int __real_dlclose(void*);
    char* __real_dlerror(void);
}

namespace
{
Counter f_open_fail("fault.dl.open_fail");
Counter f_sym_fail("fault.dl.sym_fail");
Counter f_null_symbol("fault.dl.null_symbol");
Counter f_stale("fault.dl.stale_error");
Counter f_close_error("fault.dl.close_error");
Counter f_env("fault.env.mutate");
Counter p_symbol_outlives("probe.symbol_outlives_its_dl_object");
Counter p_copy_outlives("probe.copy_outlives_original");
Counter p_last_owner("probe.last_owner_destroyed_closes_library");
Counter p_same_lib_twice("probe.same_library_opened_twice");
Counter p_lookup_after_fail("probe.successful_lookup_after_failed_one");
Counter p_stale_then_ok("probe.successful_lookup_with_stale_error_pending");
Counter p_env_empty("probe.env_set_to_empty_string_read");
Counter p_env_unset_raise("probe.env_unset_read_without_default");
Counter p_calls("probe.symbol_calls");
Counter p_fault_open("probe.alloc_fault_inside_open_load_copy");
Counter c_real_runs("loader.real.runs");
Counter c_stub_runs("loader.stub.runs");

// directory of this executable: the real shared objects are built next to it
std::string exe_dir()
{
    char buf[4096];
    ssize_t n = readlink("/proc/self/exe", buf, sizeof buf - 1);
    if (n <= 0)
        return ".";
    buf[n] = 0;
    std::string s(buf);
    return s.substr(0, s.rfind('/'));
}

// ---------------------------------------------------------------- the simulated loader
constexpr int NLIB = 3; // 0 = libA, 1 = libB, 2 = the program itself
struct Loader
{
    struct Lib
    {
        int opens = 0, closes = 0; // successful dlopen calls / dlclose calls on its handle
        char handle_tag = 0;       // &handle_tag is the handle
    } lib[NLIB];
    std::string pending;     // what the next dlerror() returns (empty = NULL)
    bool has_pending = false;
    std::string returned;    // storage for the char* handed out by dlerror()
    int diag_counter = 0;
    bool next_close_fails = false;
    int close_of_unknown = 0;
    bool call_into_closed = false;
    int calls = 0;
    bool active = false;
    bool real_mode = false;           // forward to the real loader, only count
    void* real_handle[NLIB] = { nullptr, nullptr, nullptr };
    int failed_lookups = 0;
    void reset()
    {
        *this = Loader();
    }
    int lib_of(void* h)
    {
        for (int i = 0; i < NLIB; i++)
            if (h == &lib[i].handle_tag || (real_mode && h && h == real_handle[i]))
                return i;
        return -1;
    }
    int refcount(int l) const
    {
        return lib[l].opens - lib[l].closes;
    }
    void set_error(const std::string& e)
    {
        NoFault nf;
        pending = e;
        has_pending = true;
    }
};
Loader g_ld;

// functions "exported" by the simulated libraries: they check that their library is mapped
int fn_in_lib(int l, int x)
{
    ++g_ld.calls;
    if (g_ld.refcount(l) <= 0)
        g_ld.call_into_closed = true;
    return x + 1 + l;
}
int fn_a(int x)
{
    return fn_in_lib(0, x);
}
int fn_b(int x)
{
    return fn_in_lib(1, x);
}
int fn_self(int x)
{
    return fn_in_lib(2, x);
}

extern "C" __attribute__((visibility("default"))) int sim_present(int x)
{
    return x + 1 + 2; // what dlsym finds in the main program (library id 2) in the real configuration
}

const char* const LIBNAME[4] = { "libsimA.so", "libsimB.so", nullptr, "libmissing.so" };
const char* const SYMNAME[3] = { "sim_present", "sim_absent", "sim_null" };

// ---------------------------------------------------------------- plan
enum Kind
{
    K_OPEN,
    K_LOAD,
    K_COPY_DL,
    K_COPY_SYM,
    K_CALL,
    K_HOLD,
    K_DESTROY_DL,
    K_DESTROY_SYM,
    K_RELEASE,
    K_STALE,
    K_CLOSE_ERR,
    K_SETENV,
    K_UNSETENV,
    K_GETENV,
    K_N
};
const std::vector<OpSchema>& dl_schema()
{
    static const std::vector<OpSchema> s = {
        { "open", { "slot", "lib" } },
        { "load", { "sym", "dl", "name" } },
        { "copy_dl", { "slot", "from" } },
        { "copy_sym", { "sym", "from" } },
        { "call", { "sym" } },
        { "hold", { "hold", "dl" } },
        { "destroy_dl", { "slot" } },
        { "destroy_sym", { "sym" } },
        { "release", { "hold" } },
        { "stale_error", {} },
        { "close_error", {} },
        { "setenv", { "var", "val" } },
        { "unsetenv", { "var" } },
        { "getenv", { "var", "mode", "dflt" } },
    };
    return s;
}

constexpr int NDL = 4, NSYM = 6, NHOLD = 2, NVAR = 4, NVAL = 10;
const char* const VARS[NVAR] = { "NITRO_DLSIM_A", "NITRO_DLSIM_B_long_name_with.dots", "NITRO_DLSIM\x01\xfe", "N" };
const std::string LONG_VALUE(5000, 'L'); // longer than any fixed buffer one might be tempted to use
const char* const VALS[NVAL] = { "", "v", "a=b", "  spaced  ", "-dash", "\xc3\xa4\xff\x01", "x;y;z", LONG_VALUE.c_str(), "ends with newline\n", "\r\n" };
const char* const DFLTS[3] = { "", "dflt", "0" };

using Sym = nitro::dl::symbol<int(int)>;

enum Cat
{
    C_OK,
    C_DL,      // nitro::dl::exception
    C_NITRO,   // nitro::except::exception (not dl)
    C_BADALLOC,
    C_OTHER
};

struct Exec
{
    nitro::dl::dl* dls[NDL] = {};
    Sym* syms[NSYM] = {};
    std::shared_ptr<void>* holds[NHOLD] = {};
    // model: which library each live object keeps mapped (-1 = none), and per "open instance"
    // how many live objects derive from it
    struct Inst
    {
        int lib;
        int owners;
    };
    std::vector<Inst> inst;
    int dl_inst[NDL], sym_inst[NSYM], hold_inst[NHOLD];
    int sym_lib[NSYM];
    bool sym_null[NSYM];
    std::map<std::string, std::string> env;
    Outcome out;
    Fnv h;
    bool stop = false;
    int real_ops = 0;
    bool last_lookup_failed = false;

    Exec()
    {
        std::fill(dl_inst, dl_inst + NDL, -1);
        std::fill(sym_inst, sym_inst + NSYM, -1);
        std::fill(hold_inst, hold_inst + NHOLD, -1);
        std::fill(sym_lib, sym_lib + NSYM, -1);
        std::fill(sym_null, sym_null + NSYM, false);
    }
    void fail(const char* cls, const Op& op, int opi, const std::string& arg, const std::string& detail)
    {
        if (stop)
            return;
        stop = true;
        out.violated = true;
        out.v.cls = cls;
        out.v.sig = std::string("op=") + dl_schema()[op.kind].name + " arg=" + arg;
        out.v.op = opi;
        out.v.detail = detail;
    }
    // The new object is derived from open instance `from` and shares it.  (A copy that calls dlopen
    // again would be balanced under a reference-counting loader, but the property is explicit: the
    // library is closed exactly once, after the last object derived from that open is gone - so an
    // extra dlopen/dlclose pair per copy shows up as close-missing / close-early below.)
    int attach(int from, int)
    {
        inst[static_cast<size_t>(from)].owners++;
        return from;
    }
    void drop_owner(int i)
    {
        if (i >= 0 && --inst[static_cast<size_t>(i)].owners == 0)
            p_last_owner++;
    }
    // loader-side conservation: every successful dlopen is closed exactly once, never while an
    // object derived from it is alive, and at the latest when the last of them is destroyed
    void conserve(const Op& op, int opi, const std::string& arg)
    {
        for (int l = 0; l < NLIB && !stop; l++)
        {
            int live = 0;
            for (auto& in : inst)
                if (in.lib == l && in.owners > 0)
                    ++live;
            int opens = g_ld.lib[l].opens, closes = g_ld.lib[l].closes;
            int want = opens - live;
            if (closes > opens)
                fail("C19/close-twice", op, opi, arg, std::string(l == 2 ? "main program" : LIBNAME[l]) + ": " + std::to_string(closes) + " dlclose calls for " + std::to_string(opens) + " successful dlopen calls");
            else if (closes > want)
                fail("C19/close-early", op, opi, arg, std::string(l == 2 ? "main program" : LIBNAME[l]) + " was closed while a library object, symbol or copy derived from it is still alive");
            else if (closes < want)
                fail("C19/close-missing", op, opi, arg, std::string(l == 2 ? "main program" : LIBNAME[l]) + " is still open although every object derived from that dlopen is gone");
        }
        if (!stop && g_ld.close_of_unknown)
            fail("C19/close-after-failed-open", op, opi, arg, "dlclose was called with a handle no successful dlopen returned");
        if (!stop && g_ld.call_into_closed)
            fail("C19/call-into-closed", op, opi, arg, "a symbol was called while its library was not mapped");
    }

    template <typename F>
    Cat guarded(F&& f, std::string* dlerr = nullptr)
    {
        try
        {
            FaultWindow w;
            f();
            return C_OK;
        }
        catch (nitro::dl::exception& e)
        {
            if (dlerr)
            {
                NoFault nf;
                // the loader owns and reuses the buffer dlerror() pointed to: an exception that kept
                // the pointer instead of a copy now shows garbage
                for (auto& ch : g_ld.returned)
                    ch = '#';
                *dlerr = e.dlerror();
            }
            return C_DL;
        }
        catch (nitro::except::exception&)
        {
            return C_NITRO;
        }
        catch (std::bad_alloc&)
        {
            return C_BADALLOC;
        }
        catch (...)
        {
            return C_OTHER;
        }
    }

    void step(const Op& op, int opi)
    {
        FaultCtl& f = fctl();
        f.armed_kind = op.fkind;
        f.armed_idx = op.fidx;
        f.count[FK_ALLOC] = f.count[FK_THROW] = 0;
        f.fired = false;
        h.add(static_cast<uint64_t>(op.kind));
        bool executed = true;
        std::string arg = "-";
        Cat cat = C_OK;
        int total_opens = 0;
        for (int l = 0; l < NLIB; l++)
            total_opens += g_ld.lib[l].opens;
        // per-library count before the op (the ops below only look at the library they derive from)
        int opens_before_lib[NLIB];
        for (int l = 0; l < NLIB; l++)
            opens_before_lib[l] = g_ld.lib[l].opens;
        (void)total_opens;
        switch (op.kind)
        {
        case K_OPEN:
        {
            int s = static_cast<int>(op.a[0] % NDL), lib = static_cast<int>(op.a[1] % 4);
            if (dls[s])
            {
                NoFault nf;
                delete dls[s];
                dls[s] = nullptr;
                drop_owner(dl_inst[s]);
                dl_inst[s] = -1;
            }
            arg = lib == 3 ? "missing" : lib == 2 ? "self" : "present";
            int opens_before = lib < 3 ? g_ld.lib[lib].opens : 0;
            if (lib < 3 && g_ld.refcount(lib) > 0)
                p_same_lib_twice++;
            std::string dlerr, want_diag;
            nitro::dl::dl* np = nullptr;
            cat = guarded(
                [&] {
                    if (lib == 2)
                        np = new nitro::dl::dl(nitro::dl::self);
                    else
                        np = new nitro::dl::dl(std::string(LIBNAME[lib]));
                },
                &dlerr);
            if (lib == 3)
            {
                f_open_fail++;
                if (f.fired && cat == C_BADALLOC)
                    break;
                if (cat != C_DL)
                {
                    fail(cat == C_OK ? "C19/no-raise" : "C19/wrong-exception", op, opi, arg, "opening a missing library did not raise nitro::dl::exception");
                    break;
                }
                if (g_ld.real_mode ? dlerr.find("libmissing.so") == std::string::npos : dlerr.find("sim: cannot open libmissing.so #") != 0)
                    fail("C19/diagnostic-lost", op, opi, arg, "dl::exception::dlerror() is '" + dlerr + "', not the loader's diagnostic");
                break;
            }
            if (cat == C_OK)
            {
                dls[s] = np;
                inst.push_back(Inst{ lib, 1 });
                dl_inst[s] = static_cast<int>(inst.size() - 1);
            }
            else if (f.fired && cat == C_BADALLOC)
            {
                // the loader may have opened it already: then it must have been closed again
                if (g_ld.lib[lib].opens > opens_before)
                    inst.push_back(Inst{ lib, 0 });
                p_fault_open++;
            }
            else
                fail("C19/spurious-raise", op, opi, arg, "opening an existing library raised");
            break;
        }
        case K_LOAD:
        {
            int y = static_cast<int>(op.a[0] % NSYM), s = static_cast<int>(op.a[1] % NDL), nm = static_cast<int>(op.a[2] % 3);
            if (!dls[s])
            {
                executed = false;
                break;
            }
            if (syms[y])
            {
                NoFault nf;
                delete syms[y];
                syms[y] = nullptr;
                drop_owner(sym_inst[y]);
                sym_inst[y] = -1;
            }
            bool stale = g_ld.has_pending;
            arg = std::string(nm == 0 ? "present" : nm == 1 ? "absent" : "null-address") + (stale ? ",stale-error-pending" : "");
            std::string dlerr;
            Sym* np = nullptr;
            int diag_before = g_ld.diag_counter;
            cat = guarded([&] { np = new Sym(dls[s]->load<int(int)>(SYMNAME[nm])); }, &dlerr);
            if (f.fired && cat == C_BADALLOC)
            {
                p_fault_open++;
                break;
            }
            if (nm == 1)
            {
                f_sym_fail++;
                last_lookup_failed = true;
                if (cat != C_DL)
                {
                    fail(cat == C_OK ? "C19/no-raise" : "C19/wrong-exception", op, opi, arg, "looking up a missing symbol did not raise nitro::dl::exception");
                    break;
                }
                std::string want = "sim: undefined symbol sim_absent #" + std::to_string(diag_before + 1);
                if (g_ld.real_mode ? dlerr.find("sim_absent") == std::string::npos : dlerr != want)
                    fail("C19/diagnostic-lost", op, opi, arg, "dl::exception::dlerror() is '" + dlerr + "', expected '" + want + "'");
                break;
            }
            if (nm == 2)
                f_null_symbol++;
            if (cat != C_OK)
            {
                fail("C19/spurious-raise", op, opi, arg, std::string("a lookup that succeeds raised") + (cat == C_DL ? " dl::exception('" + dlerr + "')" : ""));
                break;
            }
            if (last_lookup_failed)
                p_lookup_after_fail++;
            if (stale)
                p_stale_then_ok++;
            last_lookup_failed = false;
            syms[y] = np;
            sym_inst[y] = attach(dl_inst[s], opens_before_lib[inst[static_cast<size_t>(dl_inst[s])].lib]);
            sym_lib[y] = inst[static_cast<size_t>(dl_inst[s])].lib;
            sym_null[y] = nm == 2;
            break;
        }
        case K_COPY_DL:
        {
            int s = static_cast<int>(op.a[0] % NDL), from = static_cast<int>(op.a[1] % NDL);
            if (s == from || !dls[from])
            {
                executed = false;
                break;
            }
            if (dls[s])
            {
                NoFault nf;
                delete dls[s];
                dls[s] = nullptr;
                drop_owner(dl_inst[s]);
                dl_inst[s] = -1;
            }
            nitro::dl::dl* np = nullptr;
            cat = guarded([&] { np = new nitro::dl::dl(*dls[from]); });
            if (cat == C_OK)
            {
                dls[s] = np;
                dl_inst[s] = attach(dl_inst[from], opens_before_lib[inst[static_cast<size_t>(dl_inst[from])].lib]);
            }
            else if (!(f.fired && cat == C_BADALLOC))
                fail("C19/spurious-raise", op, opi, arg, "copying a library object raised");
            else
                p_fault_open++;
            break;
        }
        case K_COPY_SYM:
        {
            int y = static_cast<int>(op.a[0] % NSYM), from = static_cast<int>(op.a[1] % NSYM);
            if (y == from || !syms[from])
            {
                executed = false;
                break;
            }
            if (syms[y])
            {
                NoFault nf;
                delete syms[y];
                syms[y] = nullptr;
                drop_owner(sym_inst[y]);
                sym_inst[y] = -1;
            }
            Sym* np = nullptr;
            cat = guarded([&] { np = new Sym(*syms[from]); });
            if (cat == C_OK)
            {
                syms[y] = np;
                sym_inst[y] = attach(sym_inst[from], opens_before_lib[inst[static_cast<size_t>(sym_inst[from])].lib]);
                sym_lib[y] = sym_lib[from];
                sym_null[y] = sym_null[from];
            }
            else if (!(f.fired && cat == C_BADALLOC))
                fail("C19/spurious-raise", op, opi, arg, "copying a symbol raised");
            else
                p_fault_open++;
            break;
        }
        case K_CALL:
        {
            int y = static_cast<int>(op.a[0] % NSYM);
            if (!syms[y] || sym_null[y])
            {
                executed = false;
                break;
            }
            bool dl_gone = true;
            for (int s = 0; s < NDL; s++)
                if (dls[s] && dl_inst[s] == sym_inst[y])
                    dl_gone = false;
            if (dl_gone)
                p_symbol_outlives++;
            arg = dl_gone ? "dl-object-gone" : "dl-object-alive";
            int r = 0;
            cat = guarded([&] { r = (*syms[y])(41); });
            p_calls++;
            if (cat != C_OK)
                fail("C19/spurious-raise", op, opi, arg, "calling a symbol raised");
            else if (r != 42 + sym_lib[y])
                fail("C19/call-into-closed", op, opi, arg, "symbol call returned " + std::to_string(r) + ", not the value its library computes");
            break;
        }
        case K_HOLD:
        {
            int hh = static_cast<int>(op.a[0] % NHOLD), s = static_cast<int>(op.a[1] % NDL);
            if (!dls[s])
            {
                executed = false;
                break;
            }
            if (holds[hh])
            {
                NoFault nf;
                delete holds[hh];
                holds[hh] = nullptr;
                drop_owner(hold_inst[hh]);
                hold_inst[hh] = -1;
            }
            std::shared_ptr<void>* np = nullptr;
            cat = guarded([&] { np = new std::shared_ptr<void>(dls[s]->get()); });
            if (cat == C_OK)
            {
                holds[hh] = np;
                hold_inst[hh] = attach(dl_inst[s], opens_before_lib[inst[static_cast<size_t>(dl_inst[s])].lib]);
            }
            else if (!(f.fired && cat == C_BADALLOC))
                fail("C19/spurious-raise", op, opi, arg, "dl::get() raised");
            break;
        }
        case K_DESTROY_DL:
        {
            int s = static_cast<int>(op.a[0] % NDL);
            if (!dls[s])
            {
                executed = false;
                break;
            }
            bool others = inst[static_cast<size_t>(dl_inst[s])].owners > 1;
            arg = others ? "others-alive" : "last-owner";
            if (others)
                p_copy_outlives++;
            cat = guarded([&] {
                NoFault nf;
                delete dls[s];
            });
            dls[s] = nullptr;
            drop_owner(dl_inst[s]);
            dl_inst[s] = -1;
            break;
        }
        case K_DESTROY_SYM:
        {
            int y = static_cast<int>(op.a[0] % NSYM);
            if (!syms[y])
            {
                executed = false;
                break;
            }
            arg = inst[static_cast<size_t>(sym_inst[y])].owners > 1 ? "others-alive" : "last-owner";
            cat = guarded([&] {
                NoFault nf;
                delete syms[y];
            });
            syms[y] = nullptr;
            drop_owner(sym_inst[y]);
            sym_inst[y] = -1;
            break;
        }
        case K_RELEASE:
        {
            int hh = static_cast<int>(op.a[0] % NHOLD);
            if (!holds[hh])
            {
                executed = false;
                break;
            }
            arg = inst[static_cast<size_t>(hold_inst[hh])].owners > 1 ? "others-alive" : "last-owner";
            {
                NoFault nf;
                delete holds[hh];
            }
            holds[hh] = nullptr;
            drop_owner(hold_inst[hh]);
            hold_inst[hh] = -1;
            break;
        }
        case K_STALE:
            if (g_ld.real_mode)
            {
                void* h = __real_dlopen("/nonexistent/libstale-nitro-dlsim.so", RTLD_NOW); // leaves an error pending
                (void)h;
            }
            else
                g_ld.set_error("sim: stale error left by another component #" + std::to_string(++g_ld.diag_counter));
            f_stale++;
            break;
        case K_CLOSE_ERR:
            if (g_ld.real_mode)
            {
                executed = false; // the real loader cannot be told to fail a close
                break;
            }
            g_ld.next_close_fails = true;
            f_close_error++;
            break;
        case K_SETENV:
        {
            int v = static_cast<int>(op.a[0] % NVAR), val = static_cast<int>(op.a[1] % NVAL);
            setenv(VARS[v], VALS[val], 1);
            env[VARS[v]] = VALS[val];
            f_env++;
            break;
        }
        case K_UNSETENV:
        {
            int v = static_cast<int>(op.a[0] % NVAR);
            unsetenv(VARS[v]);
            env.erase(VARS[v]);
            f_env++;
            break;
        }
        case K_GETENV:
        {
            int v = static_cast<int>(op.a[0] % NVAR), mode = static_cast<int>(op.a[1] % 3), d = static_cast<int>(op.a[2] % 3);
            auto it = env.find(VARS[v]);
            bool set = it != env.end();
            arg = std::string(set ? (it->second.empty() ? "set-empty" : "set") : "unset") + (mode == 0 ? ",default" : mode == 1 ? ",no_default" : ",default-omitted");
            if (set && it->second.empty())
                p_env_empty++;
            std::string got;
            cat = guarded([&] {
                if (mode == 0)
                    got = nitro::env::get(VARS[v], DFLTS[d]);
                else if (mode == 1)
                    got = nitro::env::get(VARS[v], nitro::env::no_default);
                else
                    got = nitro::env::get(VARS[v]);
            });
            if (f.fired && cat == C_BADALLOC)
                break;
            if (mode == 1 && !set)
            {
                p_env_unset_raise++;
                if (cat == C_OK)
                    fail("C19/env:no-raise", op, opi, arg, "reading an unset variable without a default returned '" + got + "'");
                else if (cat != C_NITRO && cat != C_DL)
                    fail("C19/wrong-exception", op, opi, arg, "reading an unset variable raised something that is not a nitro exception");
                break;
            }
            if (cat != C_OK)
            {
                fail("C19/spurious-raise", op, opi, arg, "reading the environment raised");
                break;
            }
            std::string want = set ? it->second : (mode == 0 ? std::string(DFLTS[d]) : std::string());
            if (got != want)
                fail(set ? "C19/env:value" : "C19/env:default", op, opi, arg, "got '" + esc(got) + "' expected '" + esc(want) + "'");
            break;
        }
        default:
            executed = false;
        }
        out.sites.push_back(std::array<int, FK_N>{ 0, f.count[FK_ALLOC], f.count[FK_THROW] });
        f.armed_kind = FK_NONE;
        h.add(executed);
        if (!executed)
            return;
        ++real_ops;
        h.add(static_cast<uint64_t>(cat));
        h.add(f.fired);
        if (!stop && op.kind < K_SETENV)
            conserve(op, opi, arg);
    }

    Outcome run(const Plan& plan)
    {
        fctl() = FaultCtl();
        g_ld.reset();
        g_ld.real_mode = plan.knob("real_loader", 0) != 0;
        (g_ld.real_mode ? c_real_runs : c_stub_runs)++;
        g_ld.active = true;
        atrack().enabled = true;
        atrack().reset();
        for (auto v : VARS)
            unsetenv(v);
        for (size_t i = 0; i < plan.ops.size() && !stop; i++)
            step(plan.ops[i], static_cast<int>(i));
        // end of run: everything goes away; every library must be closed exactly once per open
        Op endop;
        endop.kind = K_DESTROY_DL;
        {
            NoFault nf;
            for (auto& p : syms)
            {
                delete p;
                p = nullptr;
            }
            for (auto& p : holds)
            {
                delete p;
                p = nullptr;
            }
            for (auto& p : dls)
            {
                delete p;
                p = nullptr;
            }
            for (auto& in : inst)
                in.owners = 0;
        }
        if (!stop)
            conserve(endop, static_cast<int>(plan.ops.size()), "end-of-run");
        if (!stop && atrack().live())
            fail("C19/close-missing", endop, static_cast<int>(plan.ops.size()), "raw-storage", std::to_string(atrack().live()) + " block(s) allocated by the operations were never freed");
        for (auto v : VARS)
            unsetenv(v);
        g_ld.active = false;
        fctl() = FaultCtl();
        h.add(out.violated);
        if (out.violated)
            h.adds(out.v.cls);
        out.hash = h.h;
        out.steps = plan.ops.size();
        out.nontrivial = real_ops >= 3;
        return out;
    }
};

class DlEngine : public Engine
{
public:
    const char* name() const override
    {
        return "dlsim";
    }
    uint64_t tag() const override
    {
        return 0x0C19;
    }
    const std::vector<OpSchema>& schema() const override
    {
        return dl_schema();
    }
    bool has_fault_arm(const std::string&) const override
    {
        return true;
    }
    bool fault_ok(const Op& op, int kind) const override
    {
        return kind == FK_ALLOC && (op.kind == K_OPEN || op.kind == K_LOAD || op.kind == K_COPY_DL || op.kind == K_COPY_SYM || op.kind == K_HOLD || op.kind == K_GETENV);
    }
    std::vector<std::string> real_components() const override
    {
        return { "nitro::dl::dl, nitro::dl::symbol<Sig>, nitro::dl::exception", "std::shared_ptr lifetime machinery",
                 "nitro::env::get (both overloads, compiled from /repo/src/env/get.cpp) over libc getenv/setenv and the real process environment" };
    }
    std::vector<std::string> stub_components() const override
    {
        return { "the dynamic loader: dlopen/dlsym/dlclose/dlerror replaced at link time by a handle table with per-library reference counts, a pending error string, NULL-valued symbols and library functions that check they are still mapped",
                 "global operator new (k-th allocation in an operation fails)" };
    }
    Plan generate(Rng& rng, const Config&, int) override
    {
        Plan p;
        int mode = static_cast<int>(rng.below(5)); // 0: env only, else mostly dl
        p.knobs.emplace_back("mode", mode);
        p.knobs.emplace_back("real_loader", rng.chance(1, 8));
        int nops = rng.range(3, 20);
        static const int dl_kinds[] = { K_OPEN, K_OPEN, K_OPEN, K_LOAD, K_LOAD, K_LOAD, K_LOAD, K_COPY_DL, K_COPY_SYM, K_COPY_SYM, K_CALL, K_CALL,
                                        K_CALL, K_HOLD, K_DESTROY_DL, K_DESTROY_DL, K_DESTROY_DL, K_DESTROY_SYM, K_DESTROY_SYM, K_RELEASE, K_STALE, K_CLOSE_ERR };
        static const int env_kinds[] = { K_SETENV, K_SETENV, K_UNSETENV, K_GETENV, K_GETENV, K_GETENV };
        int ndl = rng.range(1, NDL), nsym = rng.range(1, NSYM);
        // light mirror of what exists, so that most operations have something to act on
        bool has_dl[NDL] = {}, has_sym[NSYM] = {};
        auto pick = [&](bool* arr, int n, bool want) {
            int c[8], k = 0;
            for (int j = 0; j < n; j++)
                if (arr[j] == want)
                    c[k++] = j;
            return k ? c[rng.below(static_cast<uint64_t>(k))] : static_cast<int>(rng.below(static_cast<uint64_t>(n)));
        };
        for (int i = 0; i < nops; i++)
        {
            Op op;
            bool env = mode == 0 || rng.chance(1, 6);
            op.kind = env ? env_kinds[rng.below(sizeof env_kinds / sizeof(int))] : dl_kinds[rng.below(sizeof dl_kinds / sizeof(int))];
            if (!env)
            {
                bool any_dl = false, any_sym = false;
                for (bool b : has_dl)
                    any_dl |= b;
                for (bool b : has_sym)
                    any_sym |= b;
                if (!any_dl && (op.kind == K_LOAD || op.kind == K_COPY_DL || op.kind == K_HOLD || op.kind == K_DESTROY_DL))
                    op.kind = K_OPEN;
                if (!any_sym && (op.kind == K_CALL || op.kind == K_COPY_SYM || op.kind == K_DESTROY_SYM))
                    op.kind = any_dl ? K_LOAD : K_OPEN;
            }
            switch (op.kind)
            {
            case K_OPEN:
                op.a[0] = pick(has_dl, ndl, false);
                op.a[1] = rng.chance(1, 5) ? 3 : static_cast<int64_t>(rng.below(3));
                has_dl[op.a[0]] = op.a[1] != 3;
                break;
            case K_LOAD:
                op.a[0] = pick(has_sym, nsym, false);
                op.a[1] = pick(has_dl, NDL, true);
                op.a[2] = rng.chance(1, 4) ? 1 : rng.chance(1, 5) ? 2 : 0;
                has_sym[op.a[0]] = op.a[2] != 1 && has_dl[op.a[1]];
                break;
            case K_COPY_DL:
                op.a[0] = pick(has_dl, NDL, false);
                op.a[1] = pick(has_dl, NDL, true);
                if (op.a[0] != op.a[1] && has_dl[op.a[1]])
                    has_dl[op.a[0]] = true;
                break;
            case K_HOLD:
                op.a[0] = static_cast<int64_t>(rng.below(NHOLD));
                op.a[1] = pick(has_dl, NDL, true);
                break;
            case K_COPY_SYM:
                op.a[0] = pick(has_sym, NSYM, false);
                op.a[1] = pick(has_sym, NSYM, true);
                if (op.a[0] != op.a[1] && has_sym[op.a[1]])
                    has_sym[op.a[0]] = true;
                break;
            case K_CALL:
                op.a[0] = pick(has_sym, NSYM, true);
                break;
            case K_DESTROY_SYM:
                op.a[0] = pick(has_sym, NSYM, true);
                has_sym[op.a[0]] = false;
                break;
            case K_DESTROY_DL:
                op.a[0] = pick(has_dl, NDL, true);
                has_dl[op.a[0]] = false;
                break;
            case K_RELEASE:
                op.a[0] = static_cast<int64_t>(rng.below(NHOLD));
                break;
            case K_SETENV:
                op.a[0] = static_cast<int64_t>(rng.below(NVAR));
                op.a[1] = static_cast<int64_t>(rng.below(NVAL));
                break;
            case K_UNSETENV:
                op.a[0] = static_cast<int64_t>(rng.below(NVAR));
                break;
            case K_GETENV:
                op.a[0] = static_cast<int64_t>(rng.below(NVAR));
                op.a[1] = static_cast<int64_t>(rng.below(3));
                op.a[2] = static_cast<int64_t>(rng.below(3));
                break;
            default:
                break;
            }
            p.ops.push_back(op);
        }
        return p;
    }
    Outcome execute(const Plan& plan, const Config&) override
    {
        Exec x;
        Outcome o = x.run(plan);
        if (o.violated && o.v.sig.find("raw-storage") != std::string::npos)
        {
            // Blocks that were allocated inside the operations and are still there.  Memory that code
            // allocates once and keeps (a function-local static, a lazily built table) is not a leak
            // of these operations: it does not come back when the same history runs again.
            Exec y;
            return y.run(plan);
        }
        return o;
    }
};
} // namespace

// ---------------------------------------------------------------- link-time seams
extern "C"
{
    void* __real_dlopen(const char*, int);
    void* __real_dlsym(void*, const char*);
    int __real_dlclose(void*);
    char* __real_dlerror(void);

    void* __wrap_dlopen(const char* file, int flags)
    {
        if (!g_ld.active)
            return __real_dlopen(file, flags);
        NoFault nf;
        if (g_ld.real_mode)
        {
            int rl = !file ? 2 : !strcmp(file, LIBNAME[0]) ? 0 : !strcmp(file, LIBNAME[1]) ? 1 : -1;
            std::string path;
            if (rl == 0 || rl == 1)
                path = exe_dir() + (rl == 0 ? "/libsimrealA.so" : "/libsimrealB.so");
            void* h = __real_dlopen(rl == 2 ? nullptr : rl >= 0 ? path.c_str() : file, flags);
            if (h && rl >= 0)
            {
                g_ld.lib[rl].opens++;
                g_ld.real_handle[rl] = h;
            }
            return h;
        }
        int l = -1;
        if (!file)
            l = 2;
        else if (!strcmp(file, LIBNAME[0]))
            l = 0;
        else if (!strcmp(file, LIBNAME[1]))
            l = 1;
        if (l < 0)
        {
            g_ld.set_error(std::string("sim: cannot open ") + (file ? file : "(null)") + " #" + std::to_string(++g_ld.diag_counter));
            return nullptr;
        }
        g_ld.lib[l].opens++;
        return &g_ld.lib[l].handle_tag;
    }
    void* __wrap_dlsym(void* handle, const char* name)
    {
        if (!g_ld.active || g_ld.real_mode)
            return __real_dlsym(handle, name);
        NoFault nf;
        int l = g_ld.lib_of(handle);
        if (l < 0 || g_ld.refcount(l) <= 0)
        {
            g_ld.set_error("sim: dlsym on a handle that is not open #" + std::to_string(++g_ld.diag_counter));
            return nullptr;
        }
        if (!strcmp(name, SYMNAME[0]))
            return reinterpret_cast<void*>(l == 0 ? &fn_a : l == 1 ? &fn_b : &fn_self);
        if (!strcmp(name, SYMNAME[2]))
            return nullptr; // a symbol whose value is legitimately NULL: no error is set
        g_ld.failed_lookups++;
        g_ld.set_error(std::string("sim: undefined symbol ") + name + " #" + std::to_string(++g_ld.diag_counter));
        return nullptr;
    }
    int __wrap_dlclose(void* handle)
    {
        if (!g_ld.active)
            return __real_dlclose(handle);
        NoFault nf;
        if (g_ld.real_mode)
        {
            int rl = g_ld.lib_of(handle);
            if (rl < 0)
            {
                g_ld.close_of_unknown++;
                return -1;
            }
            g_ld.lib[rl].closes++;
            return __real_dlclose(handle);
        }
        int l = g_ld.lib_of(handle);
        if (l < 0)
        {
            g_ld.close_of_unknown++;
            return -1;
        }
        g_ld.lib[l].closes++;
        if (g_ld.next_close_fails)
        {
            g_ld.next_close_fails = false;
            g_ld.set_error("sim: dlclose reported an error #" + std::to_string(++g_ld.diag_counter));
            return -1;
        }
        return 0;
    }
    char* __wrap_dlerror(void)
    {
        if (!g_ld.active || g_ld.real_mode)
            return __real_dlerror();
        NoFault nf;
        if (!g_ld.has_pending)
            return nullptr;
        g_ld.returned = g_ld.pending; // the message is consumed: a second call returns NULL
        g_ld.pending.clear();
        g_ld.has_pending = false;
        return &g_ld.returned[0];
    }
}

int main(int argc, char** argv)
{
    DlEngine e;
    return sim_main(argc, argv, e);
}
