// usagesim: parser::usage() written to simulated target streams.  The text appended by usage()
// must be byte-identical whatever the stream is (fresh / pre-filled string stream, non-seekable
// stream such as std::cout, stream reporting an offset, tiny or absent put area, chunked
// progress); a failing stream must not crash or hang.  Structural clauses of C15 ride along on
// the reference text.  DESIGN.md section 3.4.
#include "../core/sim.hpp"

#include <nitro/options/parser.hpp>

#include <iostream>
#include <streambuf>

using namespace sim;
namespace no = nitro::options;

namespace
{
Counter f_nonseekable("fault.stream.nonseekable");
Counter f_offset("fault.stream.offset_or_prior_content");
Counter f_tinybuf("fault.stream.tinybuf_or_unbuffered");
Counter f_chunk("fault.stream.chunk");
Counter f_fail("fault.stream.fail");
Counter f_cout("fault.stream.real_cout_object");
Counter p_long_word("probe.word_longer_than_a_line");
Counter p_groups("probe.declaration_with_named_groups");
Counter p_long_head("probe.head_longer_than_pad_column");
Counter p_wrapped_synopsis("probe.synopsis_wraps");
Counter p_structural("probe.structural_clauses_checked");
Counter f_state("fault.stream.format_state_left_over");
Counter p_repeat("probe.usage_called_again_on_same_parser");
Counter p_moved("probe.usage_of_a_moved_parser");
Counter p_late("probe.usage_after_late_declaration");
Counter p_redeclare("probe.name_declared_again");
Counter p_redeclare_refused("probe.name_declared_again_refused");

// ---------------------------------------------------------------- simulated stream device
class SimStreambuf : public std::streambuf
{
public:
    std::string device;
    std::vector<char> area;
    bool seekable = true;
    size_t base_offset = 0;
    size_t fail_at = static_cast<size_t>(-1);
    unsigned chunk_max = 16;
    uint64_t chunk_state = 1;
    uint64_t chunks = 0;
    bool failed = false;

    void configure(bool seek, size_t offset, const std::string& prior, size_t bufsize, unsigned chunkmax, size_t failat, uint64_t seed)
    {
        seekable = seek;
        base_offset = offset;
        device = prior;
        area.assign(bufsize, 0);
        if (bufsize)
            setp(area.data(), area.data() + bufsize);
        else
            setp(nullptr, nullptr);
        fail_at = failat;
        chunk_max = chunkmax ? chunkmax : 1;
        chunk_state = splitmix64(seed);
        chunks = 0;
        failed = false;
    }
    std::string contents() const
    {
        std::string s = device;
        if (pbase() && pptr() > pbase())
            s.append(pbase(), static_cast<size_t>(pptr() - pbase()));
        return s;
    }

protected:
    bool device_write(const char* p, size_t n)
    {
        while (n)
        {
            chunk_state = splitmix64(chunk_state);
            size_t c = std::min(n, 1 + static_cast<size_t>(chunk_state % chunk_max));
            ++chunks;
            if (device.size() + c > fail_at)
            {
                size_t ok = fail_at > device.size() ? fail_at - device.size() : 0;
                device.append(p, ok);
                failed = true;
                return false;
            }
            device.append(p, c);
            p += c;
            n -= c;
        }
        return true;
    }
    bool flush_area()
    {
        if (!pbase())
            return true;
        size_t n = static_cast<size_t>(pptr() - pbase());
        bool ok = device_write(pbase(), n);
        setp(area.data(), area.data() + area.size());
        return ok;
    }
    std::streamsize xsputn(const char* s, std::streamsize count) override
    {
        if (failed)
            return 0;
        if (!pbase())
            return device_write(s, static_cast<size_t>(count)) ? count : 0;
        size_t n = static_cast<size_t>(count), done = 0;
        while (n)
        {
            size_t space = static_cast<size_t>(epptr() - pptr());
            if (space == 0)
            {
                if (!flush_area())
                    return static_cast<std::streamsize>(done);
                continue;
            }
            size_t c = std::min(n, space);
            memcpy(pptr(), s, c);
            pbump(static_cast<int>(c));
            s += c;
            n -= c;
            done += c;
        }
        return count;
    }
    int_type overflow(int_type ch) override
    {
        if (failed)
            return traits_type::eof();
        if (pbase() && !flush_area())
            return traits_type::eof();
        if (!traits_type::eq_int_type(ch, traits_type::eof()))
        {
            char c = traits_type::to_char_type(ch);
            if (pbase())
            {
                *pptr() = c;
                pbump(1);
            }
            else if (!device_write(&c, 1))
                return traits_type::eof();
        }
        return traits_type::not_eof(ch);
    }
    int sync() override
    {
        if (failed)
            return -1;
        return flush_area() ? 0 : -1;
    }
    pos_type seekoff(off_type off, std::ios_base::seekdir dir, std::ios_base::openmode which) override
    {
        if (!seekable || !(which & std::ios_base::out))
            return pos_type(off_type(-1));
        if (dir == std::ios_base::cur && off == 0)
            return pos_type(static_cast<off_type>(base_offset + device.size() + (pbase() ? static_cast<size_t>(pptr() - pbase()) : 0)));
        return pos_type(off_type(-1));
    }
    pos_type seekpos(pos_type, std::ios_base::openmode) override
    {
        return pos_type(off_type(-1));
    }
};

// ---------------------------------------------------------------- plan
enum Kind
{
    K_APP,     // s = app|about|default group name
    K_GROUP,   // idx, s = name|description
    K_DECLARE, // kind group short flags, s = name|description|metavar|env|default
    K_POSITIONALS,
    K_STREAM,  // kind seekable offset prior bufsize chunk   (s unused)
    K_N
};
const std::vector<OpSchema>& us_schema()
{
    static const std::vector<OpSchema> s = {
        { "app", {} },
        { "group", { "idx" } },
        { "declare", { "kind", "group", "short", "flags" } },
        { "positionals", { "n" } },
        { "stream", { "kind", "seekable", "offset", "prior", "bufsize", "chunk" } }, // chunk also carries the stream-state bits (chunk / 64)
    };
    return s;
}
enum StreamKind
{
    SK_FRESH_OSS,
    SK_PREFILLED_OSS,
    SK_SIM,
    SK_COUT,
    SK_FAIL,
    SK_N
};
const char* const SKNAME[SK_N] = { "fresh-ostringstream", "prefilled-ostringstream", "simulated-streambuf", "std::cout-redirected", "failing-stream" };

std::vector<std::string> fields(const std::string& s)
{
    std::vector<std::string> v;
    std::string cur;
    for (char c : s)
    {
        if (c == '|')
        {
            v.push_back(cur);
            cur.clear();
        }
        else
            cur += c;
    }
    v.push_back(cur);
    return v;
}
std::vector<std::string> words_of(const std::string& s)
{
    std::vector<std::string> w;
    std::istringstream in(s);
    std::string x;
    while (in >> x)
        w.push_back(x);
    return w;
}
bool valid_name(const std::string& n)
{
    if (n.empty() || n[0] == '-')
        return false;
    for (char c : n)
        if (!(isalnum(static_cast<unsigned char>(c)) || c == '-' || c == '_'))
            return false;
    return true;
}

struct DOpt
{
    int kind, group;
    std::string name, desc, metavar, env, def, letter;
    bool reversible = false, has_default = false, empty_list = false;
    int tdef = 0;
};
struct Decl
{
    std::string app = "main", about, defgroup = "arguments";
    struct Grp
    {
        std::string name, desc;
        bool created = false;
    } groups[4]; // 0 = default
    std::vector<int> group_order;
    std::vector<DOpt> opts;
    int positionals = 0;
    std::string positional_name = "args";
};

std::string prior_text(size_t n, bool newline_end)
{
    std::string s;
    for (size_t i = 0; i < n; i++)
        s += (i % 23 == 22) ? '\n' : static_cast<char>('a' + i % 26);
    if (n && newline_end)
        s.back() = '\n';
    else if (n && s.back() == '\n')
        s.back() = 'z';
    return s;
}

struct Exec
{
    Outcome out;
    Fnv h;
    bool stop = false;
    void fail(const char* cls, const std::string& sig, int opi, const std::string& detail)
    {
        if (stop)
            return;
        stop = true;
        out.violated = true;
        out.v.cls = cls;
        out.v.sig = sig;
        out.v.op = opi;
        out.v.detail = detail;
    }

    // build the parser from the declaration ops; returns false if nothing sensible is declared
    void build(const Plan& plan, no::parser*& p, Decl& d)
    {
        for (auto& op : plan.ops)
            if (op.kind == K_APP)
            {
                auto f = fields(op.s);
                if (!f[0].empty())
                    d.app = f[0];
                if (f.size() > 1)
                    d.about = f[1];
                if (f.size() > 2 && !f[2].empty())
                    d.defgroup = f[2];
            }
        p = new no::parser(d.app, d.about, d.defgroup);
        d.groups[0].name = d.defgroup;
        d.groups[0].created = true;
        for (auto& op : plan.ops)
        {
            if (op.kind == K_GROUP)
            {
                int gi = 1 + static_cast<int>(op.a[0] % 3);
                auto f = fields(op.s);
                if (f[0].empty() || d.groups[gi].created)
                    continue;
                bool clash = false;
                for (auto& g : d.groups)
                    if (g.created && g.name == f[0])
                        clash = true;
                if (clash || f[0] == "__default")
                    continue;
                d.groups[gi].name = f[0];
                d.groups[gi].desc = f.size() > 1 ? f[1] : "";
                d.groups[gi].created = true;
                d.group_order.push_back(gi);
                p->group(d.groups[gi].name, d.groups[gi].desc);
            }
            else if (op.kind == K_POSITIONALS)
            {
                d.positionals = static_cast<int>(op.a[0] % 3);
                p->accept_positionals(static_cast<std::size_t>(d.positionals));
                if (!op.s.empty())
                {
                    d.positional_name = op.s;
                    p->positional_metavar(op.s);
                }
            }
            else if (op.kind == K_DECLARE)
            {
                auto f = fields(op.s);
                f.resize(5);
                DOpt o;
                o.kind = static_cast<int>(op.a[0] % 3);
                o.group = static_cast<int>(op.a[1] % 4);
                if (!d.groups[o.group].created)
                    o.group = 0;
                o.name = f[0];
                if (!valid_name(o.name))
                    continue;
                bool dup = false;
                for (auto& e : d.opts)
                    if (e.name == o.name)
                        dup = true;
                if (dup)
                {
                    // a repeated declaration: refused as a developer error (other kind / other
                    // group) or answered with the identical object; either way the usage text
                    // keeps listing the name once, as first declared
                    p_redeclare++;
                    try
                    {
                        no::group& g2 = o.group == 0 ? p->group() : p->group(d.groups[o.group].name);
                        if (o.kind == 0)
                            g2.option(o.name, f[1]);
                        else if (o.kind == 1)
                            g2.multi_option(o.name, f[1]);
                        else
                            g2.toggle(o.name, f[1]);
                    }
                    catch (std::exception&)
                    {
                        p_redeclare_refused++;
                    }
                    continue;
                }
                o.desc = f[1];
                o.metavar = f[2];
                for (char& c : o.metavar)
                    if (c == ' ' || c == '\t')
                        c = '_';
                o.env = f[3];
                o.def = f[4];
                int letter = static_cast<int>(op.a[2] % 40);
                if (letter > 0 && letter <= 26)
                {
                    o.letter = std::string(1, static_cast<char>('a' + letter - 1));
                    for (auto& e : d.opts)
                        if (e.letter == o.letter)
                            o.letter.clear();
                }
                int flags = static_cast<int>(op.a[3]);
                o.has_default = flags & 1;
                o.reversible = (flags & 2) && o.kind == 2;
                o.tdef = (flags >> 2) & 3; // 0..3: counting toggles have defaults above 1
                no::group& g = o.group == 0 ? p->group() : p->group(d.groups[o.group].name);
                auto common = [&](auto& x) {
                    if (!o.letter.empty())
                        x.short_name(o.letter);
                    if (!o.env.empty())
                        x.env(o.env);
                    if (!o.metavar.empty())
                        x.metavar(o.metavar);
                };
                if (o.kind == 0)
                {
                    auto& x = g.option(o.name, o.desc);
                    common(x);
                    if (o.has_default)
                        x.default_value(o.def);
                }
                else if (o.kind == 1)
                {
                    auto& x = g.multi_option(o.name, o.desc);
                    common(x);
                    if (o.has_default)
                    {
                        if (flags & 8)
                            x.default_value({}); // a default that is the empty list
                        else
                            x.default_value({ o.def, "second" });
                        o.empty_list = (flags & 8) != 0;
                    }
                }
                else
                {
                    auto& x = g.toggle(o.name, o.desc);
                    if (!o.letter.empty())
                        x.short_name(o.letter);
                    if (!o.env.empty())
                        x.env(o.env);
                    if (o.reversible)
                        x.allow_reverse();
                    if (o.has_default)
                    {
                        if (o.tdef <= 1 && (flags & 16))
                            x.default_value(o.tdef != 0); // the bool overload
                        else
                            x.default_value(o.tdef);      // the int overload
                    }
                }
                if (o.metavar.empty())
                    o.metavar = "ARG";
                d.opts.push_back(o);
            }
        }
    }

    static std::string head_of(const DOpt& o)
    {
        std::string h = "  ";
        if (!o.letter.empty())
            h += "-" + o.letter + ", ";
        h += o.kind == 2 && o.reversible ? "--[no-]" + o.name : "--" + o.name;
        if (o.kind != 2)
            h += " " + o.metavar;
        return h;
    }
    static std::string text_of(const DOpt& o)
    {
        std::string t = o.desc;
        if (!o.env.empty())
            t += " Can be set using the environment variable '" + o.env + "'.";
        if (o.kind == 0 && o.has_default)
            t += " (default: " + o.def + ")";
        if (o.kind == 1 && o.has_default)
            t += o.empty_list ? std::string(" (default: )") : " (default: " + (o.def.empty() ? std::string("second") : o.def + ", second") + ")";
        if (o.kind == 2 && o.reversible)
            t += std::string(" (default: ") + (o.has_default && o.tdef ? "enabled" : "disabled") + ")";
        return t;
    }

    // structural clauses on the reference text (functions of the declaration alone)
    void structural(const std::string& text, const Decl& d, int opi)
    {
        p_structural++;
        std::vector<std::string> lines;
        {
            std::string cur;
            for (char c : text)
            {
                if (c == '\n')
                {
                    lines.push_back(cur);
                    cur.clear();
                }
                else
                    cur += c;
            }
            if (!cur.empty())
                lines.push_back(cur);
        }
        // synopsis = lines up to the first empty line
        size_t syn_end = 0;
        while (syn_end < lines.size() && !lines[syn_end].empty())
            ++syn_end;
        std::string syn;
        for (size_t i = 0; i < syn_end; i++)
        {
            for (auto& w : words_of(lines[i]))
                syn += w + " ";
        }
        if (syn_end > 1)
            p_wrapped_synopsis++;
        size_t pad_syn = 8 + d.app.size();
        std::vector<std::string> units; // unbreakable units of the synopsis
        std::string cluster;
        for (auto& o : d.opts)
            if (o.kind == 2 && !o.letter.empty())
                cluster += o.letter;
        std::sort(cluster.begin(), cluster.end());
        if (!cluster.empty())
            units.push_back("[-" + cluster + "]");
        for (auto& o : d.opts)
        {
            if (o.kind == 2)
            {
                if (o.letter.empty() || o.reversible)
                    units.push_back("[" + std::string(o.reversible ? "--[no-]" : "--") + o.name + "]");
                // (a short-named, non-reversible toggle is mentioned by its letter in the cluster)
            }
            else
            {
                if (!o.letter.empty())
                {
                    units.push_back("[-" + o.letter + " <" + o.metavar + ">");
                    units.push_back("--" + o.name + " <" + o.metavar + ">]");
                }
                else
                    units.push_back("[--" + o.name + " <" + o.metavar + ">]");
            }
        }
        if (d.positionals)
            units.push_back("[" + d.positional_name + " ...]");
        for (auto& u : units)
        {
            std::string norm;
            for (auto& w : words_of(u))
                norm += w + " ";
            if (syn.find(norm) == std::string::npos)
                return fail("C15/synopsis-missing", "unit", opi, "synopsis does not mention '" + u + "': " + syn.substr(0, 200));
        }
        // option section: every option exactly once as a head line, in group / declaration order
        std::vector<const DOpt*> order;
        std::vector<int> gorder{ 0 };
        for (int gi : d.group_order)
            gorder.push_back(gi);
        for (int gi : gorder)
            for (auto& o : d.opts)
                if (o.group == gi)
                    order.push_back(&o);
        std::vector<size_t> head_line(order.size(), static_cast<size_t>(-1));
        for (size_t k = 0; k < order.size(); k++)
        {
            std::string hd = head_of(*order[k]);
            int count = 0;
            for (size_t i = syn_end; i < lines.size(); i++)
            {
                const std::string& L = lines[i];
                if (L.compare(0, hd.size(), hd) == 0 && (L.size() == hd.size() || L[hd.size()] == ' '))
                {
                    ++count;
                    head_line[k] = i;
                }
            }
            if (count == 0)
                return fail("C15/missing-option", "kind=" + std::to_string(order[k]->kind), opi, "no line starts with '" + hd + "'");
            if (count > 1)
                return fail("C15/duplicate-option", "kind=" + std::to_string(order[k]->kind), opi, "several lines start with '" + hd + "'");
            if (hd.size() > 40)
                p_long_head++;
        }
        for (size_t k = 1; k < order.size(); k++)
            if (head_line[k] <= head_line[k - 1])
                return fail(order[k]->group != order[k - 1]->group ? "C15/group-order" : "C15/order", "options", opi,
                            "'" + order[k]->name + "' is listed before '" + order[k - 1]->name + "'");
        // group headings sit above their first option, in creation order
        size_t last_heading = 0;
        for (int gi : gorder)
        {
            bool nonempty = false;
            for (auto& o : d.opts)
                if (o.group == gi)
                    nonempty = true;
            if (!nonempty)
                continue;
            std::string heading = d.groups[gi].name + ":";
            size_t first_head = static_cast<size_t>(-1);
            for (size_t k = 0; k < order.size(); k++)
                if (order[k]->group == gi)
                {
                    first_head = head_line[k];
                    break;
                }
            size_t found = static_cast<size_t>(-1);
            for (size_t i = std::max(syn_end, last_heading); i < first_head && i < lines.size(); i++)
                if (lines[i] == heading)
                    found = i;
            if (found == static_cast<size_t>(-1))
                return fail("C15/group-order", "heading", opi, "heading '" + heading + "' is not above the first option of its group");
            last_heading = found + 1;
        }
        // words after each head = words of description + environment hint + default
        for (size_t k = 0; k < order.size(); k++)
        {
            std::string hd = head_of(*order[k]);
            std::string block = lines[head_line[k]].substr(hd.size());
            for (size_t i = head_line[k] + 1; i < lines.size(); i++)
            {
                const std::string& L = lines[i];
                if (L.empty() || L.compare(0, 3, "   ") != 0)
                    break;
                block += " " + L;
            }
            if (words_of(block) != words_of(text_of(*order[k])))
                return fail("C15/words", "kind=" + std::to_string(order[k]->kind), opi,
                            "text after '" + hd + "' is '" + block.substr(0, 160) + "' expected words of '" + text_of(*order[k]).substr(0, 160) + "'");
        }
        // 80 columns unless a single unbreakable word forces it
        for (size_t i = 0; i < lines.size(); i++)
        {
            const std::string& L = lines[i];
            if (L.size() <= 80)
                continue;
            bool excused = false;
            if (i < syn_end)
            {
                for (auto& u : units)
                    if (u.size() + 1 > 80 - std::min<size_t>(pad_syn, 79) && L.find(u) != std::string::npos)
                        excused = true;
                if (pad_syn >= 79)
                    excused = true;
            }
            else
            {
                // the word that crosses column 80, and every word after it on this line, must be one
                // that cannot fit the 40-column text area (a breakable word would have been wrapped)
                {
                    bool crossing_ok = true, any_cross = false;
                    size_t col = 0;
                    while (col < L.size())
                    {
                        while (col < L.size() && L[col] == ' ')
                            ++col;
                        size_t start = col;
                        while (col < L.size() && L[col] != ' ')
                            ++col;
                        if (col > start && col > 80 && start >= 40)
                        {
                            any_cross = true;
                            if (col - start + 1 <= 40)
                                crossing_ok = false;
                        }
                    }
                    if (any_cross && crossing_ok)
                        excused = true;
                }
                // a head line longer than 80 columns consists of unbreakable pieces itself
                for (size_t k = 0; k < order.size(); k++)
                    if (head_line[k] == i && head_of(*order[k]).size() > 80)
                        excused = true;
                // free text the caller supplied verbatim (about, group description, heading)
                bool verbatim = L == d.about;
                for (auto& g : d.groups)
                    if (g.created && (L == g.desc || L == g.name + ":"))
                        verbatim = true;
                if (verbatim)
                    excused = true;
            }
            if (excused)
                p_long_word++;
            else
                return fail("C15/width", i < syn_end ? "synopsis" : "option-section", opi,
                            "line of " + std::to_string(L.size()) + " columns without an unbreakable word: " + L.substr(0, 120));
        }
    }

    Outcome run(const Plan& plan)
    {
        no::parser* p = nullptr;
        Decl d;
        try
        {
            build(plan, p, d);
        }
        catch (std::exception& e)
        {
            // a declaration the generator should not have produced: not this property's business
            delete p;
            out.hash = 1;
            return out;
        }
        h.add(d.opts.size());
        for (auto& o : d.opts)
        {
            h.add(static_cast<uint64_t>(o.kind * 8 + o.group));
            h.add(o.name.size() + 100 * words_of(o.desc).size());
        }
        if (!d.group_order.empty())
            p_groups++;
        // reference: a fresh string stream
        std::string ref;
        try
        {
            std::ostringstream os;
            p->usage(os);
            ref = os.str();
        }
        catch (std::exception& e)
        {
            fail("C15/missing-option", "usage-throws", -1, std::string("usage() raised instead of writing the text: ") + e.what());
            delete p;
            out.hash = 2;
            return out;
        }
        if (plan.knob("move", 0))
        {
            // the text is a function of the declarations: moving the parser object changes nothing
            no::parser* q = nullptr;
            if (plan.knob("move", 0) == 1)
                q = new no::parser(std::move(*p));
            else
            {
                q = new no::parser("other", "about something else");
                q->toggle("leftover", "an option of the overwritten parser");
                *q = std::move(*p);
            }
            delete p;
            p = q;
            p_moved++;
            std::ostringstream os;
            p->usage(os);
            if (os.str() != ref)
                fail("C15/differs-after-move", plan.knob("move", 0) == 1 ? "move-constructed" : "move-assigned", -1,
                     "usage() of the moved parser differs from the text before the move");
        }
        {
            // a second call on the same parser (nothing may be left over from the first)
            std::ostringstream os;
            p->usage(os);
            p_repeat++;
            if (os.str() != ref)
                fail("C15/stream-dependent", "stream=fresh-ostringstream second-call", -1, "the second usage() call on the same parser wrote a different text");
        }
        int nstreams = 0;
        for (size_t i = 0; i < plan.ops.size() && !stop; i++)
        {
            const Op& op = plan.ops[i];
            if (op.kind != K_STREAM)
                continue;
            ++nstreams;
            int kind = static_cast<int>(op.a[0] % SK_N);
            bool seekable = op.a[1] & 1;
            size_t offset = static_cast<size_t>(op.a[2] % 500);
            size_t prior = static_cast<size_t>(op.a[3] % 201);
            bool nl = (op.a[3] / 201) & 1;
            static const size_t BUFS[] = { 0, 1, 2, 7, 16, 64, 4096 };
            size_t bufsize = BUFS[op.a[4] % 7];
            unsigned chunk = 1 + static_cast<unsigned>(op.a[5] % 64);
            // formatting state some earlier user of the stream left behind
            int state = static_cast<int>((op.a[5] / 64) % 16) & ~1;
            auto apply_state = [&](std::ostream& os) {
                if (!state)
                    return;
                f_state++;
                // (a pending width() is not among them: it pads the first insertion of ANY writer and says
                //  nothing about usage(); fill, adjustment and numeric flags matter only to code that sets a
                //  width on the target stream itself)
                if (state & 2)
                    os.fill('*');
                if (state & 4)
                    os.setf(std::ios_base::left, std::ios_base::adjustfield);
                if (state & 8)
                    os.setf(std::ios_base::hex | std::ios_base::uppercase | std::ios_base::showbase | std::ios_base::boolalpha,
                            std::ios_base::basefield | std::ios_base::uppercase | std::ios_base::showbase | std::ios_base::boolalpha);
            };
            h.add(static_cast<uint64_t>(kind));
            h.add(seekable * 2 + (offset > 0) + 4 * (prior > 0) + 8 * (bufsize == 0) + 16 * (bufsize > 0 && bufsize < 16));
            std::string pr = prior_text(prior, nl);
            std::string got;
            std::string sig = std::string("stream=") + SKNAME[kind];
            switch (kind)
            {
            case SK_FRESH_OSS:
            {
                std::ostringstream os;
                apply_state(os);
                p->usage(os);
                got = os.str();
                if (state)
                    sig += " format-state";
                break;
            }
            case SK_PREFILLED_OSS:
            {
                std::ostringstream os;
                os << pr;
                f_offset++;
                apply_state(os);
                if (state)
                    sig += " format-state";
                p->usage(os);
                std::string all = os.str();
                if (all.compare(0, pr.size(), pr) != 0)
                {
                    fail("C15/stream-dependent", sig + " prior-content-altered", static_cast<int>(i), "usage() changed what the stream already contained");
                    break;
                }
                got = all.substr(pr.size());
                sig += pr.empty() ? " empty" : (nl ? " prior-ends-with-newline" : " prior-ends-mid-line");
                break;
            }
            case SK_SIM:
            case SK_COUT:
            {
                SimStreambuf sb;
                sb.configure(kind == SK_SIM && seekable, offset, pr, bufsize, chunk, static_cast<size_t>(-1), static_cast<uint64_t>(op.a[5]) + 77);
                if (!(kind == SK_SIM && seekable))
                    f_nonseekable++;
                if (offset || prior)
                    f_offset++;
                if (bufsize < 16)
                    f_tinybuf++;
                if (kind == SK_COUT)
                {
                    f_cout++;
                    std::streambuf* old = std::cout.rdbuf(&sb);
                    std::cout.clear();
                    std::ios saved(nullptr);
                    saved.copyfmt(std::cout);
                    apply_state(std::cout);
                    try
                    {
                        p->usage(); // default argument: std::cout
                    }
                    catch (...)
                    {
                        std::cout.copyfmt(saved);
                        std::cout.rdbuf(old);
                        throw;
                    }
                    std::cout.flush();
                    std::cout.copyfmt(saved);
                    std::cout.rdbuf(old);
                    sig += " nonseekable";
                }
                else
                {
                    std::ostream os(&sb);
                    apply_state(os);
                    p->usage(os);
                    os.flush();
                    if (state)
                        sig += " format-state";
                    sig += seekable ? (offset || prior ? " seekable,offset" : " seekable") : " nonseekable";
                }
                f_chunk += sb.chunks;
                std::string all = sb.contents();
                if (all.compare(0, pr.size(), pr) != 0)
                {
                    fail("C15/stream-dependent", sig + " prior-content-altered", static_cast<int>(i), "usage() changed what the stream already contained");
                    break;
                }
                got = all.substr(pr.size());
                break;
            }
            default:
            {
                // failing device: only "returns, no crash, no hang" is demanded
                SimStreambuf sb;
                sb.configure(false, 0, "", bufsize, chunk, static_cast<size_t>(op.a[2] % 300), 5);
                std::ostream os(&sb);
                f_fail++;
                try
                {
                    p->usage(os);
                }
                catch (std::ios_base::failure&)
                {
                }
                got = ref;
                break;
            }
            }
            if (stop)
                break;
            if (got != ref)
            {
                size_t k = 0;
                while (k < got.size() && k < ref.size() && got[k] == ref[k])
                    ++k;
                fail("C15/stream-dependent", sig, static_cast<int>(i),
                     "text differs from the text on a fresh string stream at byte " + std::to_string(k) + ": ...'" +
                         got.substr(k > 20 ? k - 20 : 0, 60) + "' vs ...'" + ref.substr(k > 20 ? k - 20 : 0, 60) + "'");
            }
        }
        if (!stop)
            structural(ref, d, -1);
        if (!stop)
        {
            // declarations made after usage() was already called must show up in the next call
            DOpt t;
            t.kind = 2;
            t.group = 0;
            t.name = "late-toggle";
            t.desc = "declared after the first usage call";
            p->toggle(t.name, t.desc);
            d.opts.push_back(t);
            DOpt o;
            o.kind = 0;
            o.group = d.group_order.empty() ? 0 : d.group_order.back();
            o.name = "late-option";
            o.desc = "also late";
            o.metavar = "ARG";
            (o.group == 0 ? p->group() : p->group(d.groups[o.group].name)).option(o.name, o.desc);
            d.opts.push_back(o);
            std::ostringstream os;
            p->usage(os);
            p_late++;
            size_t before = out.violated;
            structural(os.str(), d, -2);
            if (out.violated && !before)
                out.v.sig += " after-late-declaration";
        }
        delete p;
        h.add(out.violated);
        h.adds(out.violated ? out.v.cls : std::string());
        out.hash = h.h;
        out.steps = static_cast<uint64_t>(nstreams);
        out.nontrivial = d.opts.size() >= 2 && nstreams >= 2;
        return out;
    }
};

class UsageEngine : public Engine
{
public:
    const char* name() const override
    {
        return "usagesim";
    }
    uint64_t tag() const override
    {
        return 0x0C15;
    }
    const std::vector<OpSchema>& schema() const override
    {
        return us_schema();
    }
    bool has_fault_arm(const std::string&) const override
    {
        return false;
    }
    std::vector<std::string> real_components() const override
    {
        return { "parser::usage, group::usage, base::format, format_synopsis/format_default/format_value (compiled from /repo/src/options)",
                 "nitro::io::terminal::format_padded, nitro::lang::split/join/replace_all, nitro::format",
                 "std::ostream / std::ostringstream / the std::cout object" };
    }
    std::vector<std::string> stub_components() const override
    {
        return { "SimStreambuf: the device behind the target stream (seekable or not, reported offset, prior content, put-area size, chunked progress, failure at byte k)" };
    }

    static std::string word(Rng& rng, int maxlen)
    {
        int n = rng.chance(1, 12) ? rng.range(std::min(30, maxlen), maxlen) : rng.range(1, std::min(9, maxlen));
        std::string w;
        for (int i = 0; i < n; i++)
            w += static_cast<char>('a' + rng.below(26));
        return w;
    }
    static std::string text(Rng& rng, int maxwords, int maxlen)
    {
        int n = rng.chance(1, 6) ? 0 : rng.range(1, maxwords);
        std::string t;
        bool sloppy = rng.chance(1, 8); // leading / trailing / doubled blanks, as hand-written text has
        if (sloppy && rng.chance(1, 2))
            t += ' ';
        for (int i = 0; i < n; i++)
        {
            if (i)
                t += (sloppy && rng.chance(1, 3)) ? "  " : " ";
            t += word(rng, maxlen);
        }
        if (sloppy && rng.chance(1, 2))
            t += ' ';
        return t;
    }

    Plan generate(Rng& rng, const Config&, int) override
    {
        Plan p;
        p.knobs.emplace_back("move", rng.chance(1, 3) ? static_cast<int64_t>(rng.range(1, 2)) : 0);
        {
            Op op;
            op.kind = K_APP;
            std::string app = word(rng, 40);
            op.s = app + "|" + text(rng, 8, 20) + "|" + (rng.chance(1, 3) ? word(rng, 12) : std::string());
            p.ops.push_back(op);
        }
        int ngroups = rng.chance(1, 2) ? 0 : rng.range(1, 3);
        for (int g = 0; g < ngroups; g++)
        {
            Op op;
            op.kind = K_GROUP;
            op.a[0] = g;
            // (names are unique by their index and in no particular alphabetical order)
            op.s = word(rng, 3) + "grp" + std::to_string(g) + word(rng, 10) + "|" + (rng.chance(1, 2) ? text(rng, 10, 20) : std::string());
            p.ops.push_back(op);
        }
        int nopts = rng.range(0, 8);
        for (int i = 0; i < nopts; i++)
        {
            Op op;
            op.kind = K_DECLARE;
            op.a[0] = static_cast<int64_t>(rng.below(3));
            op.a[1] = ngroups ? static_cast<int64_t>(rng.below(static_cast<uint64_t>(ngroups) + 1)) : 0;
            op.a[2] = rng.chance(1, 2) ? static_cast<int64_t>(1 + rng.below(26)) : 0;
            op.a[3] = static_cast<int64_t>(rng.below(32));
            std::string name = "o" + std::to_string(i);
            int extra = rng.chance(1, 5) ? rng.range(10, 28) : rng.range(0, 8);
            for (int k = 0; k < extra; k++)
                name += static_cast<char>(rng.chance(1, 7) ? '-' : 'a' + rng.below(26));
            if (name.back() == '-')
                name += 'x';
            if (i > 0 && rng.chance(1, 6))
            {
                // the name of an earlier declaration again, with freshly drawn kind and group
                size_t back = 1 + rng.below(static_cast<uint64_t>(i));
                const Op& prev = p.ops[p.ops.size() - back];
                if (prev.kind == K_DECLARE)
                    name = prev.s.substr(0, prev.s.find('|'));
            }
            std::string mv = rng.chance(1, 3) ? word(rng, 12) : std::string();
            for (auto& c : mv)
                c = static_cast<char>(toupper(c));
            std::string env = rng.chance(1, 3) ? "ENV_" + std::to_string(i) : std::string();
            op.s = name + "|" + text(rng, 40, 60) + "|" + mv + "|" + env + "|" + text(rng, 5, 30);
            p.ops.push_back(op);
        }
        if (rng.chance(1, 3))
        {
            Op op;
            op.kind = K_POSITIONALS;
            op.a[0] = static_cast<int64_t>(rng.below(3));
            if (rng.chance(1, 2))
                op.s = word(rng, 12);
            p.ops.push_back(op);
        }
        int nstreams = rng.range(4, 6);
        for (int i = 0; i < nstreams; i++)
        {
            Op op;
            op.kind = K_STREAM;
            static const int kinds[] = { SK_FRESH_OSS, SK_PREFILLED_OSS, SK_PREFILLED_OSS, SK_SIM, SK_SIM, SK_SIM, SK_COUT, SK_COUT, SK_FAIL };
            op.a[0] = kinds[rng.below(sizeof kinds / sizeof(int))];
            op.a[1] = static_cast<int64_t>(rng.below(2));
            op.a[2] = rng.chance(1, 2) ? 0 : static_cast<int64_t>(rng.below(500));
            op.a[3] = rng.chance(1, 3) ? 0 : static_cast<int64_t>(rng.below(402));
            op.a[4] = static_cast<int64_t>(rng.below(7));
            op.a[5] = static_cast<int64_t>(rng.below(64)) + 64 * (rng.chance(1, 3) ? static_cast<int64_t>(rng.below(16)) : 0);
            p.ops.push_back(op);
        }
        return p;
    }
    Outcome execute(const Plan& plan, const Config&) override
    {
        Exec x;
        return x.run(plan);
    }
};
} // namespace

int main(int argc, char** argv)
{
    UsageEngine e;
    return sim_main(argc, argv, e);
}
