// optsim: sessions on one long-lived nitro::options::parser.  C14: every parse equals what a
// freshly built twin gives (after successful parses, aborted parses, environment changes,
// allocation failures).  C13: declarations against a reference table, also across moves of
// the parser object.  DESIGN.md section 3.3.
#include "../core/sim.hpp"

#include <nitro/options/parser.hpp>

#include <cstdlib>

using namespace sim;
namespace no = nitro::options;

namespace
{
Counter p_abort_late("probe.parse_aborted_after_option_consumed");
Counter p_second_parse("probe.second_or_later_parse_on_same_parser");
Counter p_parse_after_abort("probe.parse_after_aborted_parse");
Counter p_parse_after_badalloc("probe.parse_after_bad_alloc");
Counter p_parse_after_env("probe.parse_after_environment_change");
Counter p_declare_after_move("probe.declaration_after_move");
Counter p_redeclare_conflict("probe.conflicting_redeclaration");
Counter p_redeclare_same("probe.identical_redeclaration");
Counter p_dup_letter("probe.parse_with_duplicate_letter");
Counter p_resolution("probe.resolution_probe_parses");
Counter f_abort("fault.parse.abort");
Counter f_env("fault.env.mutate");
Counter f_move("fault.obj.move");
Counter f_move_keep("fault.obj.move_source_kept_alive");
Counter p_move_assign("probe.parser_move_assigned");
Counter p_vector_overload("probe.parse_through_vector_overload");

const char* const NAMES[7] = { "a", "b", "ab", "x", "long-name", "", "long_name" }; // index 5: a "short-only" option
const char* const LETTERS[7] = { "a", "b", "x", "", "ab", "A", "1" };
// (arguments from 700 up: a letter whose byte is above 127; older replay files keep their meaning)
inline const char* letter_of(int arg)
{
    return arg >= 700 ? "\xe4" : LETTERS[arg % 7];
}
const char* const GROUPS[3] = { nullptr, "g1", "arguments" }; // the second named group is titled like the default group
const char* const ENVS[3] = { "NITRO_SIM_E0", "NITRO_SIM_E1", "NITRO_SIM_E2" };
const char* const VALUES[6] = { "v1", "2.5", "7", "x=y", "two words", "" };
// what an environment variable is set to: the values above and the words a bound toggle understands
const char* const ENVVALUES[10] = { "v1", "2.5", "7", "x=y", "two words", "", "yes", "off", "1", "No" };

enum Kind
{
    K_DECLARE, // kind group name mod arg
    K_POSITIONALS,
    K_MOVE,
    K_ENVSET,
    K_ENVUNSET,
    K_PARSE,   // argv in s, tokens separated by '|'
    K_PROBE,   // C13 resolution probe of every declared option
    K_N
};
enum Mod
{
    M_NONE,
    M_SHORT,
    M_ENV,
    M_DEFAULT,
    M_OPTIONAL,
    M_REVERSE,
    M_METAVAR,
    M_N
};
const std::vector<OpSchema>& opt_schema()
{
    static const std::vector<OpSchema> s = {
        { "declare", { "kind", "group", "name", "mod", "arg" } },
        { "positionals", { "n", "greedy" } },
        { "move", { "keep_source" } },
        { "setenv", { "var", "val" } },
        { "unsetenv", { "var" } },
        { "parse", { "overload" } },
        { "probe", {} },
    };
    return s;
}

enum Cat
{
    C_OK,
    C_USER,    // parsing_error
    C_DEV,     // parser_error
    C_BADALLOC,
    C_OTHER
};
const char* const CATNAME[5] = { "ok", "user-input-error", "developer-error", "bad_alloc", "other-exception" };

template <typename F>
Cat guarded(F&& f, std::string* what = nullptr)
{
    try
    {
        FaultWindow w;
        f();
        return C_OK;
    }
    catch (no::parsing_error& e)
    {
        if (what)
        {
            NoFault nf;
            *what = e.what();
        }
        return C_USER;
    }
    catch (no::parser_error& e)
    {
        if (what)
        {
            NoFault nf;
            *what = e.what();
        }
        return C_DEV;
    }
    catch (std::bad_alloc&)
    {
        return C_BADALLOC;
    }
    catch (...)
    {
        return C_OTHER;
    }
}

struct MOption
{
    int kind, group, name;
    std::string letter, env;
    bool has_default = false, optional = false, reversible = false;
    std::string def;
    const void* addr = nullptr;
    bool addr_valid = false;
    bool moved = false; // the parser was moved since this address was taken
};

struct DeclModel
{
    std::vector<MOption> opts; // declaration order
    int positionals = 0;       // -1 unlimited
    bool greedy = false;
    int find(int name) const
    {
        for (size_t i = 0; i < opts.size(); i++)
            if (opts[i].name == name)
                return static_cast<int>(i);
        return -1;
    }
    bool dup_letter() const
    {
        for (size_t i = 0; i < opts.size(); i++)
            for (size_t j = i + 1; j < opts.size(); j++)
                if (!opts[i].letter.empty() && opts[i].letter == opts[j].letter)
                    return true;
        return false;
    }
};

std::vector<std::string> split_tokens(const std::string& s)
{
    std::vector<std::string> v;
    if (s.empty())
        return v;
    std::string cur;
    for (char c : s)
    {
        if (c == '|')
        {
            v.push_back(cur);
            cur.clear();
        }
        else
            cur += c;
    }
    v.push_back(cur);
    return v;
}

// apply one successful-or-not declaration op to a parser; returns category
struct DeclResult
{
    Cat cat = C_OK;
    const void* addr = nullptr;
    bool declare_threw = false; // the declaration itself (not the modifier) raised
};

// group references an application obtained earlier and keeps using (also after the parser moved)
struct GroupCache
{
    no::group* g[3] = { nullptr, nullptr, nullptr };
};

DeclResult apply_declare(no::parser& p, const Op& op, GroupCache* cache = nullptr)
{
    DeclResult r;
    int kind = static_cast<int>(op.a[0] % 3), group = static_cast<int>(op.a[1] % 3), name = static_cast<int>(op.a[2] % 7);
    int mod = static_cast<int>(op.a[3] % M_N), arg = static_cast<int>(op.a[4]);
    bool in_modifier = false;
    r.cat = guarded([&] {
        auto with = [&](auto& o) {
            r.addr = &o;
            in_modifier = true;
            switch (mod)
            {
            case M_SHORT:
                o.short_name(letter_of(arg));
                break;
            case M_ENV:
                o.env(ENVS[arg % 3]);
                break;
            case M_METAVAR:
                o.metavar(arg % 4 == 0 ? "" : "MV");
                break;
            default:
                break;
            }
        };
        bool use_cached = cache && cache->g[group] && (arg & 2);
        no::group& g = use_cached ? *cache->g[group] :
                       GROUPS[group] ? p.group(GROUPS[group], (group == 2) != ((arg & 8) != 0) ? "second group" : "") : p.group();
        if (cache)
            cache->g[group] = &g;
        bool via_parser = group == 0 && (arg & 1) && !use_cached;
        if (kind == 0)
        {
            const char* desc = (arg & 4) ? "an option, described differently this time" : "an option";
            no::option& o = via_parser ? p.option(NAMES[name], desc) : g.option(NAMES[name], desc);
            with(o);
            if (mod == M_DEFAULT)
                o.default_value(VALUES[arg % 6]);
            if (mod == M_OPTIONAL)
                o.optional();
        }
        else if (kind == 1)
        {
            const char* desc = (arg & 4) ? "" : "a multi option";
            no::multi_option& o = via_parser ? p.multi_option(NAMES[name], desc) : g.multi_option(NAMES[name], desc);
            with(o);
            if (mod == M_DEFAULT)
                o.default_value({ VALUES[arg % 6], "d2" });
            if (mod == M_OPTIONAL)
                o.optional();
        }
        else
        {
            const char* desc = (arg & 4) ? "a toggle (other words)" : "a toggle";
            no::toggle& o = via_parser ? p.toggle(NAMES[name], desc) : g.toggle(NAMES[name], desc);
            with(o);
            if (mod == M_DEFAULT)
                o.default_value(static_cast<int>(arg % 3));
            if (mod == M_REVERSE)
                o.allow_reverse();
        }
    });
    r.declare_threw = r.cat != C_OK && !in_modifier;
    return r;
}

void apply_positionals(no::parser& p, const Op& op)
{
    int n = static_cast<int>(op.a[0] % 4);
    if (n == 3)
        p.accept_positionals();
    else
        p.accept_positionals(static_cast<std::size_t>(n));
    p.greedy_postionals(op.a[1] & 1);
}

// everything observable about a parse result, in canonical text form
std::string observe(const no::arguments& args, const DeclModel& m)
{
    std::ostringstream o;
    for (auto& opt : m.opts)
    {
        const char* nm = NAMES[opt.name];
        o << nm << ":";
        try
        {
            o << (args.provided(nm) ? "P" : "-");
            if (opt.kind == 0)
            {
                try
                {
                    const std::string& text = args.get(nm);
                    o << "[" << text << "]";
                    // typed access, for values that start with a number (for anything else the
                    // conversion result is not defined by the library)
                    if (!text.empty() && isdigit(static_cast<unsigned char>(text[0])))
                        o << "=" << args.as<int>(nm);
                }
                catch (std::exception&)
                {
                    o << "<absent>";
                }
            }
            else if (opt.kind == 1)
            {
                o << args.count(nm) << "{";
                for (auto& v : args.get_all(nm))
                    o << "[" << v << "]";
                o << "}";
            }
            else
                o << "#" << args.given(nm);
        }
        catch (std::exception& e)
        {
            o << "!" << e.what();
        }
        o << ";";
    }
    o << "pos{";
    for (auto& v : args.positionals())
        o << "[" << v << "]";
    o << "}";
    return o.str();
}

struct ParseResult
{
    Cat cat = C_OK;
    std::string obs, what;
};

ParseResult do_parse(no::parser& p, const std::vector<std::string>& toks, const DeclModel& m, bool window, bool via_vector = false)
{
    ParseResult r;
    // the argument array lives at one fixed address (a caller re-using its buffer for the next
    // command line is perfectly normal)
    static const char* argv_storage[64];
    struct ArgvView
    {
        const char** p;
        size_t n = 0;
        void push_back(const char* s)
        {
            if (n < 64)
                p[n++] = s;
        }
        size_t size() const
        {
            return n;
        }
        const char* const* data() const
        {
            return p;
        }
    } argv{ argv_storage };
    argv.push_back("prog");
    for (auto& t : toks)
        argv.push_back(t.c_str());
    auto body = [&] {
        if (via_vector)
        {
            // the overload taking already tokenised input
            std::vector<no::user_input> in;
            for (auto& t : toks)
                in.emplace_back(t);
            no::arguments args = p.parse(in);
            NoFault nf;
            r.obs = observe(args, m);
            return;
        }
        no::arguments args = p.parse(static_cast<int>(argv.size()), argv.data());
        NoFault nf;
        r.obs = observe(args, m);
    };
    if (window)
        r.cat = guarded(body, &r.what);
    else
    {
        NoFault nf;
        try
        {
            body();
        }
        catch (no::parsing_error& e)
        {
            r.cat = C_USER;
            r.what = e.what();
        }
        catch (no::parser_error& e)
        {
            r.cat = C_DEV;
            r.what = e.what();
        }
        catch (std::bad_alloc&)
        {
            r.cat = C_BADALLOC;
        }
        catch (...)
        {
            r.cat = C_OTHER;
        }
    }
    return r;
}

struct Exec
{
    no::parser* p = nullptr;
    GroupCache cache;
    std::vector<no::parser*> kept; // moved-from sources kept alive until the end of the run
    DeclModel m;
    std::vector<Op> good_decls; // declaration / positional ops that succeeded, in order (for the twin)
    Outcome out;
    Fnv h;
    bool stop = false;
    int parses = 0, moves = 0;
    bool moved_since_decl = false;
    bool last_aborted = false, last_badalloc = false, env_changed = false;
    std::string prop;
    uint64_t plan_key = 0;       // hash of the plan without its fault annotations
    bool prefix_faulted = false; // a fault fired earlier in this execution (twin answers may then differ? no - but stay exact)
    static std::map<std::pair<uint64_t, int>, ParseResult>& twin_cache()
    {
        static std::map<std::pair<uint64_t, int>, ParseResult> c;
        return c;
    }

    void fail(const char* cls, const Op& op, int opi, const std::string& arg, const std::string& detail)
    {
        if (stop)
            return;
        stop = true;
        out.violated = true;
        out.v.cls = cls;
        out.v.sig = std::string("op=") + opt_schema()[op.kind].name + " arg=" + arg;
        out.v.op = opi;
        out.v.detail = detail;
    }

    no::parser* twin()
    {
        // the twin is harness code: no fault may fire or be counted while it is built
        struct Save
        {
            FaultCtl saved;
            Save() : saved(fctl())
            {
                fctl() = FaultCtl();
            }
            ~Save()
            {
                fctl() = saved;
            }
        } save;
        no::parser* t = new no::parser("prog", "about");
        for (auto& d : good_decls)
        {
            if (d.kind == K_DECLARE)
                apply_declare(*t, d);
            else
                apply_positionals(*t, d);
        }
        return t;
    }

    void step(const Op& op, int opi)
    {
        FaultCtl& f = fctl();
        f.armed_kind = op.fkind;
        f.armed_idx = op.fidx;
        f.count[FK_ALLOC] = f.count[FK_THROW] = 0;
        f.fired = false;
        h.add(static_cast<uint64_t>(op.kind));
        switch (op.kind)
        {
        case K_DECLARE:
        {
            int kind = static_cast<int>(op.a[0] % 3), group = static_cast<int>(op.a[1] % 3), name = static_cast<int>(op.a[2] % 7);
            int mod = static_cast<int>(op.a[3] % M_N), arg = static_cast<int>(op.a[4]);
            int idx = m.find(name);
            bool conflict = idx >= 0 && (m.opts[static_cast<size_t>(idx)].kind != kind || m.opts[static_cast<size_t>(idx)].group != group);
            if (moves)
                p_declare_after_move++;
            if (conflict)
                p_redeclare_conflict++;
            else if (idx >= 0)
                p_redeclare_same++;
            DeclResult r = apply_declare(*p, op, &cache);
            h.add(static_cast<uint64_t>(r.cat));
            std::string arg_s = std::string(conflict ? "conflict" : idx >= 0 ? "again" : "new") + (moves ? ",after-move" : "");
            if (r.cat == C_BADALLOC || r.cat == C_OTHER || r.cat == C_USER)
                return fail("C13/redeclare-rejected-wrongly", op, opi, arg_s, std::string("declaration ended with ") + CATNAME[r.cat]);
            if (conflict)
            {
                // the declaration itself must be refused (a developer error raised by the modifier
                // that follows it does not count)
                if (r.cat != C_DEV || !r.declare_threw)
                    return fail("C13/redeclare-accepted", op, opi, arg_s,
                                std::string("name '") + NAMES[name] + "' is already declared with another kind or in another group, yet the declaration was accepted");
                return;
            }
            if (r.declare_threw)
                return fail("C13/redeclare-rejected-wrongly", op, opi, arg_s, std::string("declaration of '") + NAMES[name] + "' was rejected although it does not conflict");
            // the declaration itself went through
            if (idx < 0)
            {
                MOption o;
                o.kind = kind;
                o.group = group;
                o.name = name;
                m.opts.push_back(o);
                idx = static_cast<int>(m.opts.size() - 1);
            }
            MOption& mo = m.opts[static_cast<size_t>(idx)];
            if (mo.addr_valid && !moved_since_decl_for(mo) && r.addr != mo.addr)
                return fail("C13/identity", op, opi, arg_s, "re-declaration returned a different object");
            mo.addr = r.addr;
            mo.addr_valid = true;
            mo.moved = false;
            // modifier rules
            bool mod_must_throw = false, mod_may_throw = false;
            if (mod == M_SHORT)
            {
                std::string l = letter_of(arg);
                mod_must_throw = l.size() != 1 || (!mo.letter.empty() && mo.letter != l);
                if (!mod_must_throw)
                    mo.letter = l;
            }
            else if (mod == M_ENV)
            {
                std::string e = ENVS[arg % 3];
                mod_may_throw = !mo.env.empty() && mo.env != e; // not part of the property
                if (r.cat == C_OK)
                    mo.env = e;
            }
            else if (mod == M_METAVAR)
                mod_may_throw = true;
            else if (mod == M_DEFAULT && r.cat == C_OK)
            {
                mo.has_default = true;
                mo.def = VALUES[arg % 6];
            }
            else if (mod == M_OPTIONAL && r.cat == C_OK)
                mo.optional = true;
            else if (mod == M_REVERSE && r.cat == C_OK)
                mo.reversible = true;
            if (mod_must_throw && r.cat != C_DEV)
                return fail("C13/short-name-rule", op, opi, arg_s + ",short", "short_name accepted a name that is not one character or changes the existing one");
            if (!mod_must_throw && !mod_may_throw && r.cat != C_OK)
                return fail(mod == M_SHORT ? "C13/short-name-rule" : "C13/redeclare-rejected-wrongly", op, opi, arg_s + (mod == M_SHORT ? ",short" : ""), "a legal setting was rejected");
            // the twin replays this op: it reproduces the same partial effect (declare ok, modifier maybe rejected)
            good_decls.push_back(op);
            break;
        }
        case K_POSITIONALS:
            apply_positionals(*p, op);
            good_decls.push_back(op);
            m.positionals = static_cast<int>(op.a[0] % 4) == 3 ? -1 : static_cast<int>(op.a[0] % 4);
            m.greedy = op.a[1] & 1;
            break;
        case K_MOVE:
        {
            bool keep = op.a[0] & 1;
            (keep ? f_move_keep : f_move)++;
            no::parser* np = nullptr;
            bool assign = op.a[0] & 2; // move assignment into an existing parser instead of move construction
            {
                NoFault nf;
                if (assign)
                {
                    np = new no::parser("other", "other about", "other group");
                    np->option("will-be-replaced");
                    *np = std::move(*p);
                    p_move_assign++;
                }
                else
                    np = new no::parser(std::move(*p));
                if (keep)
                    kept.push_back(p);
                else
                    delete p;
            }
            p = np;
            ++moves;
            for (auto& o : m.opts)
                o.moved = true;
            break;
        }
        case K_ENVSET:
            setenv(ENVS[op.a[0] % 3], ENVVALUES[op.a[1] % 10], 1);
            f_env++;
            env_changed = true;
            break;
        case K_ENVUNSET:
            unsetenv(ENVS[op.a[0] % 3]);
            f_env++;
            env_changed = true;
            break;
        case K_PARSE:
        {
            std::vector<std::string> toks = split_tokens(op.s);
            ++parses;
            if (parses >= 2)
                p_second_parse++;
            if (last_aborted)
                p_parse_after_abort++;
            if (last_badalloc)
                p_parse_after_badalloc++;
            if (env_changed && parses >= 2)
                p_parse_after_env++;
            bool dup = m.dup_letter();
            if (dup)
                p_dup_letter++;
            std::string ctx = last_badalloc ? "after-bad_alloc" : last_aborted ? "after-abort" : (env_changed && parses >= 2) ? "after-env" : parses >= 2 ? "repeat" : "first";
            // The twin's answer depends only on the fault-free prefix of the plan; the fault variants
            // of one history re-use it instead of paying for another fresh parser and parse.
            ParseResult want;
            {
                NoFault nf;
                auto it = twin_cache().find(std::make_pair(plan_key, opi));
                if (it != twin_cache().end() && !prefix_faulted)
                    want = it->second;
                else
                {
                    no::parser* t = twin();
                    want = do_parse(*t, toks, m, false);
                    delete t;
                    if (!prefix_faulted)
                    {
                        if (twin_cache().size() > 64)
                            twin_cache().clear();
                        twin_cache()[std::make_pair(plan_key, opi)] = want;
                    }
                }
            }
            ParseResult got = do_parse(*p, toks, m, true, (op.a[0] & 1) != 0);
            if (op.a[0] & 1)
                p_vector_overload++;
            out.sites.back()[FK_ALLOC] = f.count[FK_ALLOC];
            h.add(static_cast<uint64_t>(got.cat));
            h.adds(got.obs);
            bool by_fault = f.fired && got.cat == C_BADALLOC;
            env_changed = false;
            if (by_fault)
            {
                // an allocation failed inside parse: allowed to fail; the NEXT parse must be clean
                last_badalloc = true;
                last_aborted = false;
                return;
            }
            last_badalloc = false;
            if (got.cat == C_USER)
            {
                f_abort++;
                // did the aborted parse get past at least one option token?
                if (toks.size() >= 2)
                    p_abort_late++;
            }
            last_aborted = got.cat != C_OK;
            // C13: a parser in which two options share a letter refuses to parse
            // a token that is not even a well-formed argument is rejected while the input is being
            // tokenised, before the parser looks at its declaration: either error may come first then
            bool malformed = false;
            if (dup)
            {
                NoFault nf;
                for (auto& t : toks)
                {
                    try
                    {
                        no::user_input probe(t);
                        (void)probe;
                    }
                    catch (std::exception&)
                    {
                        malformed = true;
                    }
                }
            }
            if (dup && (malformed ? got.cat == C_OK : got.cat != C_DEV))
            {
                // both properties speak here: C13 (a parser with a shared letter refuses to parse) and
                // C14 (a fresh parser with this declaration refuses, the long-lived one does not)
                if (prop == "C14" && want.cat == C_DEV)
                    return fail("C14/differs-from-fresh:outcome", op, opi, ctx,
                                std::string("long-lived parser: ") + CATNAME[got.cat] + ", fresh parser: developer-error (two options share a letter)");
                return fail("C13/duplicate-letter-parsed", op, opi, ctx, std::string("two options share a letter, parse ended with ") + CATNAME[got.cat]);
            }
            if (got.cat == C_BADALLOC || got.cat == C_OTHER)
                return fail("C14/differs-from-fresh:outcome", op, opi, ctx, std::string("parse ended with ") + CATNAME[got.cat]);
            if (got.cat != want.cat)
                return fail("C14/differs-from-fresh:outcome", op, opi, ctx,
                            std::string("long-lived parser: ") + CATNAME[got.cat] + (got.what.empty() ? "" : " (" + got.what + ")") + ", fresh parser: " + CATNAME[want.cat]);
            if (got.cat == C_OK && got.obs != want.obs)
            {
                const char* cls = "C14/differs-from-fresh:value";
                // classify by the first differing field
                size_t i = 0;
                while (i < got.obs.size() && i < want.obs.size() && got.obs[i] == want.obs[i])
                    ++i;
                size_t start = got.obs.rfind(';', i);
                std::string field = got.obs.substr(start == std::string::npos ? 0 : start + 1, 12);
                if (field.compare(0, 4, "pos{") == 0)
                    cls = "C14/differs-from-fresh:positionals";
                else if (field.find('#') != std::string::npos && field.find('#') < field.find(';'))
                    cls = "C14/differs-from-fresh:count";
                else if (field.find('{') != std::string::npos && field.find('{') < field.find(';'))
                    cls = "C14/differs-from-fresh:list";
                return fail(cls, op, opi, ctx, "long-lived: " + got.obs + " | fresh: " + want.obs);
            }
            break;
        }
        case K_PROBE:
        {
            // C13: every spelled name / letter resolves to exactly one option
            if (m.dup_letter() || m.opts.empty())
                break;
            // resolution is probed under an empty environment (an unparsable environment word for a
            // bound toggle would legitimately fail every parse)
            std::string saved_env[3];
            bool had_env[3];
            for (int e = 0; e < 3; e++)
            {
                const char* v = getenv(ENVS[e]);
                had_env[e] = v != nullptr;
                if (v)
                    saved_env[e] = v;
                unsetenv(ENVS[e]);
            }
            struct Restore
            {
                std::string* sv;
                bool* had;
                ~Restore()
                {
                    for (int e = 0; e < 3; e++)
                        if (had[e])
                            setenv(ENVS[e], sv[e].c_str(), 1);
                }
            } restore{ saved_env, had_env };
            for (size_t x = 0; x < m.opts.size() && !stop; x++)
            {
                for (int spelling = 0; spelling < 2 && !stop; spelling++)
                {
                    const MOption& X = m.opts[x];
                    if (spelling == 1 && X.letter.empty())
                        continue;
                    if (spelling == 0 && X.name == 5)
                        continue; // an option without a long name is spelled by its letter only
                    std::vector<std::string> toks;
                    bool unspellable = false;
                    for (size_t y = 0; y < m.opts.size(); y++)
                    {
                        const MOption& Y = m.opts[y];
                        if (y == x || Y.kind == 2)
                            continue;
                        if (Y.name == 5 && Y.letter.empty())
                        {
                            unspellable = !Y.has_default && !Y.optional;
                            continue;
                        }
                        toks.push_back(Y.name == 5 ? "-" + Y.letter : std::string("--") + NAMES[Y.name]);
                        toks.push_back(std::string("val-") + NAMES[Y.name]);
                    }
                    if (unspellable)
                        continue; // a required option nobody can spell: every parse fails legitimately
                    std::string sp = spelling ? "-" + X.letter : std::string("--") + NAMES[X.name];
                    toks.push_back(sp);
                    if (X.kind != 2)
                        toks.push_back("PROBE");
                    p_resolution++;
                    no::parser* q = p;
                    std::string obs;
                    Cat c = C_OK;
                    std::string what;
                    std::vector<const char*> argv{ "prog" };
                    for (auto& t : toks)
                        argv.push_back(t.c_str());
                    c = guarded(
                        [&] {
                            no::arguments a = q->parse(static_cast<int>(argv.size()), argv.data());
                            NoFault nf;
                            // X changed ...
                            const char* xn = NAMES[X.name];
                            bool ok = true;
                            std::string why;
                            if (X.kind == 0 && a.get(xn) != "PROBE")
                            {
                                ok = false;
                                why = std::string("option '") + xn + "' did not receive the value spelled for it";
                            }
                            if (X.kind == 1 && (a.count(xn) != 1 || a.get(xn, 0) != "PROBE"))
                            {
                                ok = false;
                                why = std::string("multi option '") + xn + "' did not receive exactly the value spelled for it";
                            }
                            if (X.kind == 2 && a.given(xn) != 1)
                            {
                                ok = false;
                                why = std::string("toggle '") + xn + "' was not counted once";
                            }
                            // ... and no other explicitly given option did
                            for (size_t y = 0; y < m.opts.size() && ok; y++)
                            {
                                const MOption& Y = m.opts[y];
                                if (y == x || Y.kind == 2 || (Y.name == 5 && Y.letter.empty()))
                                    continue;
                                std::string want = std::string("val-") + NAMES[Y.name];
                                if (Y.kind == 0 && a.get(NAMES[Y.name]) != want)
                                {
                                    ok = false;
                                    why = std::string("option '") + NAMES[Y.name] + "' changed although '" + sp + "' was spelled";
                                }
                                if (Y.kind == 1 && (a.count(NAMES[Y.name]) != 1 || a.get(NAMES[Y.name], 0) != want))
                                {
                                    ok = false;
                                    why = std::string("multi option '") + NAMES[Y.name] + "' changed although '" + sp + "' was spelled";
                                }
                            }
                            if (!ok)
                                obs = why;
                        },
                        &what);
                    if (c != C_OK)
                        fail("C13/resolution", op, opi, spelling ? "letter" : "name", "probe '" + sp + "' ended with " + CATNAME[c] + (what.empty() ? "" : ": " + what));
                    else if (!obs.empty())
                        fail("C13/resolution", op, opi, spelling ? "letter" : "name", obs);
                }
            }
            ++parses;
            last_aborted = false;
            break;
        }
        default:
            break;
        }
    }

    static bool moved_since_decl_for(const MOption& o)
    {
        return o.moved;
    }

    Outcome run(const Plan& plan, const Config& cfg)
    {
        prop = cfg.prop;
        fctl() = FaultCtl();
        {
            Fnv k;
            for (auto& op : plan.ops)
            {
                k.add(static_cast<uint64_t>(op.kind));
                for (int i = 0; i < NARGS; i++)
                    k.add(static_cast<uint64_t>(op.a[i]));
                k.adds(op.s);
            }
            plan_key = k.h;
        }
        for (auto e : ENVS)
            unsetenv(e);
        {
            NoFault nf;
            p = new no::parser("prog", "about");
        }
        for (size_t i = 0; i < plan.ops.size() && !stop; i++)
        {
            out.sites.push_back(std::array<int, FK_N>{ 0, 0, 0 });
            step(plan.ops[i], static_cast<int>(i));
            fctl().armed_kind = FK_NONE;
        }
        {
            NoFault nf;
            delete p;
            for (auto k : kept)
                delete k;
        }
        for (auto e : ENVS)
            unsetenv(e);
        fctl() = FaultCtl();
        h.add(out.violated);
        if (out.violated)
            h.adds(out.v.cls);
        out.hash = h.h;
        out.steps = plan.ops.size();
        out.nontrivial = parses >= 2 || (moves >= 1 && m.opts.size() >= 1);
        return out;
    }
};

struct MOptionExt
{
};

class OptEngine : public Engine
{
public:
    const char* name() const override
    {
        return "optsim";
    }
    uint64_t tag() const override
    {
        return 0x0C1314;
    }
    const std::vector<OpSchema>& schema() const override
    {
        return opt_schema();
    }
    bool has_fault_arm(const std::string& prop) const override
    {
        return prop == "C14";
    }
    bool fault_ok(const Op& op, int kind) const override
    {
        return op.kind == K_PARSE && kind == FK_ALLOC;
    }
    int max_sites(const std::string& tier) const override
    {
        // one parse has hundreds of allocation sites (std::regex); quick samples them evenly
        return tier == "thorough" ? 64 : 8;
    }
    std::vector<std::string> real_components() const override
    {
        return { "nitro::options::parser, group, option, multi_option, toggle, user_input, arguments (compiled from /repo/src/options)",
                 "nitro::env::get (compiled from /repo/src/env/get.cpp) over libc getenv and the real process environment",
                 "nitro::lang::optional, nitro::format, std::regex" };
    }
    std::vector<std::string> stub_components() const override
    {
        return { "global operator new (k-th allocation inside one parse fails)" };
    }

    Plan generate(Rng& rng, const Config& cfg, int) override
    {
        Plan p;
        bool c13 = cfg.prop == "C13";
        DeclModel m;
        int ndecl = rng.range(1, 8);
        int env_bound = 0;
        std::vector<int> bound_vars, toggle_vars; // environment variables some option / some toggle is bound to
        auto declare = [&]() {
            Op op;
            op.kind = K_DECLARE;
            int name = rng.chance(1, 14) ? 5 : rng.chance(1, 8) ? 6 : static_cast<int>(rng.below(5));
            int idx = m.find(name);
            int kind, group;
            if (idx >= 0 && !rng.chance(1, c13 ? 3 : 8))
            {
                kind = m.opts[static_cast<size_t>(idx)].kind;
                group = m.opts[static_cast<size_t>(idx)].group;
            }
            else
            {
                kind = static_cast<int>(rng.below(3));
                group = rng.chance(1, 2) ? 0 : static_cast<int>(rng.below(3));
            }
            op.a[0] = kind;
            op.a[1] = group;
            op.a[2] = name;
            static const int mods[] = { M_NONE, M_NONE, M_SHORT, M_SHORT, M_SHORT, M_ENV, M_DEFAULT, M_DEFAULT, M_OPTIONAL, M_REVERSE, M_METAVAR };
            int mod = mods[rng.below(sizeof mods / sizeof(int))];
            if (mod == M_REVERSE && kind != 2)
                mod = M_OPTIONAL;
            if (mod == M_OPTIONAL && kind == 2)
                mod = M_REVERSE;
            op.a[3] = mod;
            int arg = static_cast<int>(rng.below(60));
            if (mod == M_SHORT)
            {
                // mostly legal letters, sometimes "" / "ab", sometimes a clash
                static const int legal[] = { 0, 1, 2, 5, 6, 7 };
                int l = rng.chance(1, c13 ? 4 : 10) ? 3 + static_cast<int>(rng.below(2)) : legal[rng.below(6)];
                arg = l == 7 ? 700 + static_cast<int>(rng.below(8)) : l + 7 * static_cast<int>(rng.below(8));
            }
            op.a[4] = arg;
            // mirror (assuming the documented semantics)
            bool conflict = idx >= 0 && (m.opts[static_cast<size_t>(idx)].kind != kind || m.opts[static_cast<size_t>(idx)].group != group);
            if (!conflict)
            {
                if (idx < 0)
                {
                    MOption o;
                    o.kind = kind;
                    o.group = group;
                    o.name = name;
                    m.opts.push_back(o);
                    idx = static_cast<int>(m.opts.size() - 1);
                }
                MOption& mo = m.opts[static_cast<size_t>(idx)];
                if (mod == M_SHORT)
                {
                    std::string l = letter_of(arg);
                    if (l.size() == 1 && (mo.letter.empty() || mo.letter == l))
                        mo.letter = l;
                }
                else if (mod == M_ENV)
                {
                    if (mo.env.empty())
                    {
                        mo.env = ENVS[arg % 3];
                        env_bound++;
                        bound_vars.push_back(arg % 3);
                        if (mo.kind == 2)
                            toggle_vars.push_back(arg % 3);
                    }
                }
                else if (mod == M_DEFAULT)
                {
                    mo.has_default = true;
                    mo.def = VALUES[arg % 6];
                }
                else if (mod == M_OPTIONAL)
                    mo.optional = true;
                else if (mod == M_REVERSE)
                    mo.reversible = true;
            }
            p.ops.push_back(op);
        };
        auto gen_argv = [&](bool allow_fail) {
            std::vector<std::string> toks;
            int npos = 0;
            std::vector<size_t> order(m.opts.size());
            for (size_t i = 0; i < order.size(); i++)
                order[i] = i;
            for (size_t i = order.size(); i > 1; i--)
                std::swap(order[i - 1], order[rng.below(i)]);
            for (size_t oi : order)
            {
                const MOption& o = m.opts[oi];
                bool required = o.kind != 2 && !o.has_default && !o.optional && o.env.empty();
                if (!required && !rng.chance(3, 5))
                    continue;
                int reps = o.kind == 0 ? 1 : rng.range(1, 3);
                for (int r = 0; r < reps; r++)
                {
                    if (o.name == 5 && o.letter.empty())
                        break; // cannot be spelled at all
                    bool use_short = !o.letter.empty() && (o.name == 5 || rng.chance(1, 2));
                    std::string sp = use_short ? "-" + o.letter : std::string("--") + NAMES[o.name];
                    if (o.kind == 2)
                    {
                        if (o.reversible && rng.chance(1, 4) && reps == 1)
                            sp = std::string("--no-") + NAMES[o.name];
                        toks.push_back(sp);
                    }
                    else
                    {
                        const char* v = VALUES[rng.below(6)];
                        if (rng.chance(1, 3))
                            toks.push_back(sp + "=" + v);
                        else
                        {
                            toks.push_back(sp);
                            toks.push_back(*v ? v : "e");
                        }
                    }
                }
                if (m.positionals != 0 && !m.greedy && rng.chance(1, 4) && (m.positionals < 0 || npos < m.positionals))
                {
                    toks.push_back("pos" + std::to_string(npos++));
                }
            }
            if (m.positionals != 0 && rng.chance(1, 2))
            {
                if (rng.chance(1, 3))
                    toks.push_back("--");
                int n = rng.range(1, 2);
                for (int k = 0; k < n && (m.positionals < 0 || npos < m.positionals); k++)
                    toks.push_back("pos" + std::to_string(npos++));
            }
            if (allow_fail && rng.chance(3, 10))
            {
                // a failure at a LATE token, after earlier tokens already updated options
                switch (rng.below(6))
                {
                case 0:
                    toks.push_back("--unknown");
                    break;
                case 1:
                    if (!m.opts.empty() && m.opts[0].kind != 2)
                        toks.push_back(std::string("--") + NAMES[m.opts[0].name]); // value missing
                    else
                        toks.push_back("-Z");
                    break;
                case 2:
                    for (auto& o : m.opts)
                        if (o.kind == 0)
                        {
                            toks.push_back(std::string("--") + NAMES[o.name]);
                            toks.push_back("dup1");
                            toks.push_back(std::string("--") + NAMES[o.name] + "=dup2");
                            break;
                        }
                    break;
                case 3:
                    for (auto& o : m.opts)
                        if (o.kind == 2)
                        {
                            toks.push_back(std::string("--") + NAMES[o.name] + "=1");
                            break;
                        }
                    break;
                case 4:
                    for (auto& o : m.opts)
                        if (o.kind == 2 && o.reversible)
                        {
                            toks.push_back(std::string("--") + NAMES[o.name]);
                            toks.push_back(std::string("--no-") + NAMES[o.name]);
                            break;
                        }
                    break;
                default:
                    toks.push_back("stray-positional");
                    toks.push_back("another");
                    toks.push_back("and-more");
                    toks.push_back("x4");
                    break;
                }
            }
            std::string s;
            for (size_t i = 0; i < toks.size(); i++)
            {
                if (i)
                    s += '|';
                s += toks[i];
            }
            return s;
        };
        for (int i = 0; i < ndecl; i++)
            declare();
        if (rng.chance(1, 2))
        {
            Op op;
            op.kind = K_POSITIONALS;
            op.a[0] = static_cast<int64_t>(rng.below(4));
            op.a[1] = rng.chance(1, 4);
            m.positionals = op.a[0] == 3 ? -1 : static_cast<int>(op.a[0]);
            m.greedy = op.a[1];
            p.ops.push_back(op);
        }
        int nsteps = rng.range(2, 7);
        int moves = 0;
        for (int s = 0; s < nsteps; s++)
        {
            unsigned r = static_cast<unsigned>(rng.below(100));
            if (r < (c13 ? 25u : 8u) && moves < 2)
            {
                Op op;
                op.kind = K_MOVE;
                op.a[0] = (rng.chance(1, 3) ? 1 : 0) + (rng.chance(1, 3) ? 2 : 0);
                p.ops.push_back(op);
                ++moves;
                // further declarations are the interesting part after a move
                int more = rng.range(1, 3);
                for (int k = 0; k < more; k++)
                    declare();
            }
            else if (r < (c13 ? 45u : 14u))
                declare();
            else if (r < (c13 ? 50u : 34u) && env_bound)
            {
                Op op;
                op.kind = rng.chance(2, 3) ? K_ENVSET : K_ENVUNSET;
                // mostly a variable that is bound, and for one a toggle reads mostly a word it understands
                bool tv = !toggle_vars.empty() && rng.chance(1, 2);
                op.a[0] = tv ? toggle_vars[rng.below(toggle_vars.size())] :
                          rng.chance(2, 3) ? bound_vars[rng.below(bound_vars.size())] : static_cast<int64_t>(rng.below(3));
                op.a[1] = static_cast<int64_t>(rng.chance(tv ? 1 : 3, 4) ? rng.below(6) : 6 + rng.below(4));
                p.ops.push_back(op);
            }
            else if (c13 && r < 75)
            {
                Op op;
                op.kind = K_PROBE;
                p.ops.push_back(op);
            }
            else
            {
                Op op;
                op.kind = K_PARSE;
                op.a[0] = rng.chance(1, 3);
                op.s = gen_argv(true);
                p.ops.push_back(op);
            }
        }
        if (!c13)
        {
            // always end with a parse that is meant to succeed: it sees everything that came before
            Op op;
            op.kind = K_PARSE;
            op.s = gen_argv(false);
            p.ops.push_back(op);
        }
        return p;
    }
    Outcome execute(const Plan& plan, const Config& cfg) override
    {
        Exec x;
        return x.run(plan, cfg);
    }
    void simplify(const Op& op, std::vector<Op>& out) const override
    {
        if (op.kind == K_PARSE)
        {
            std::vector<std::string> toks = split_tokens(op.s);
            for (size_t k = 0; k < toks.size(); k++)
            {
                Op c = op;
                c.s.clear();
                for (size_t j = 0; j < toks.size(); j++)
                    if (j != k)
                    {
                        if (!c.s.empty())
                            c.s += '|';
                        c.s += toks[j];
                    }
                out.push_back(c);
            }
        }
    }
};
} // namespace

int main(int argc, char** argv)
{
    OptEngine e;
    return sim_main(argc, argv, e);
}
