// ownsim: nitro::lang::quaint_ptr / make_quaint / optional<T> under seeded call histories
// with enumerated allocation and payload-constructor faults.  Decides C18.
// DESIGN.md section 3.5.
#include "../core/sim.hpp"

#include <nitro/lang/optional.hpp>
#include <nitro/lang/quaint_ptr.hpp>

#include <unordered_map>

using namespace sim;
using nitro::lang::quaint_ptr;

namespace
{
Counter p_overwrite("probe.make_into_occupied_slot");
Counter p_realloc("probe.vector_reallocation_with_live_elements");
Counter p_moved_from_use("probe.moved_from_pointer_observed");
Counter p_assign_empty("probe.optional_assign_empty_to_engaged");
Counter p_read_empty("probe.optional_read_empty");
Counter p_copy_mutate("probe.optional_copy_then_replace_one");
Counter p_self_assign("probe.optional_self_copy_assignment");
Counter p_swap("probe.adl_swap_of_two_pointers");
Counter p_optbool("probe.optional_of_bool_copied");
Counter p_fault_make("probe.fault_inside_make_quaint");
Counter p_fault_vec("probe.fault_inside_vector_growth");
Counter p_fault_opt("probe.fault_inside_optional_copy");
Counter p_types[6] = { Counter("payload.Small.created"), Counter("payload.Heapy.created"),
                       Counter("payload.Large.created"), Counter("payload.Multi.created"), Counter("payload.SelfClearing.created"),
                       Counter("payload.Pooled.created") };
Counter p_reenter("probe.reset_reentered_from_payload_destructor");

constexpr uint32_t ALIVE = 0xA11CE5ED, DEAD = 0xDEADDEAD;

struct Reg
{
    struct Info
    {
        uint32_t serial;
        int type;
    };
    std::unordered_map<const void*, Info> live;
    uint32_t next_serial = 1;
    bool has_pending = false;
    Violation pending;
    uint64_t ops = 0;
    void reset()
    {
        live.clear();
        next_serial = 1;
        has_pending = false;
        pending = Violation();
        ops = 0;
    }
    void flag(const char* cls, const std::string& d)
    {
        if (has_pending)
            return;
        has_pending = true;
        pending.cls = cls;
        pending.detail = d;
    }
} g_reg;

struct Head
{
    uint32_t magic;
    int32_t type;
    uint32_t serial;
    int32_t val;
};

inline void born(Head* h, const void* self, int type, int val)
{
    NoFault nf;
    ++g_reg.ops;
    if (g_reg.live.count(self))
        g_reg.flag("C18/double-destroy", "payload constructed over a live payload");
    h->magic = ALIVE;
    h->type = type;
    h->serial = g_reg.next_serial++;
    h->val = val;
    g_reg.live[self] = Reg::Info{ h->serial, type };
}
inline void died(Head* h, const void* self, int static_type)
{
    NoFault nf;
    ++g_reg.ops;
    auto it = g_reg.live.find(self);
    if (it == g_reg.live.end() || h->magic != ALIVE)
    {
        g_reg.flag("C18/double-destroy", "destructor ran on a payload that is not live");
        return;
    }
    if (it->second.type != static_type)
        g_reg.flag("C18/wrong-type-destructor", "payload created as type " + std::to_string(it->second.type) +
                                                    " destroyed by the destructor of type " + std::to_string(static_type));
    g_reg.live.erase(it);
    h->magic = DEAD;
}

// three unrelated payload types of different size and layout
struct Small
{
    Head h;
    explicit Small(int v)
    {
        throw_site();
        born(&h, this, 0, v);
    }
    ~Small()
    {
        died(&h, this, 0);
    }
};
struct Heapy
{
    Head h;
    std::unique_ptr<int[]> extra;
    explicit Heapy(int v) : extra(new int[4])
    {
        throw_site();
        extra[0] = v;
        born(&h, this, 1, v);
    }
    ~Heapy()
    {
        died(&h, this, 1);
    }
};
struct Large
{
    Head h;
    char pad[200];
    explicit Large(int v)
    {
        throw_site();
        pad[199] = static_cast<char>(v);
        born(&h, this, 2, v);
    }
    ~Large()
    {
        died(&h, this, 2);
    }
};

// a payload with two bases: the address of its second base differs from the object's address,
// so a deleter that went through the wrong static type would adjust the pointer wrongly
struct BaseA
{
    char a[24];
    virtual ~BaseA() = default;
};
struct BaseB
{
    Head h;
    virtual ~BaseB() = default;
};
struct Multi : BaseA, BaseB
{
    explicit Multi(int v)
    {
        throw_site();
        born(&h, this, 4, v);
    }
    ~Multi() override
    {
        died(&h, this, 4);
    }
};

// A payload that clears the pointer that owns it from its own destructor (an object removing
// itself from a registry slot while the slot is being reset).  The pointer is already empty at
// that instant - std::unique_ptr::reset() stores the null pointer before it runs the deleter - so
// the inner call is a no-op; an owner that ran the deleter first would destroy the payload twice.
// Armed only by reset() and `= nullptr` operations (a destructor of the owner itself is not re-entered).
nitro::lang::quaint_ptr* g_reenter = nullptr;
int g_reenter_how = 0;
struct SelfClearing
{
    Head h;
    explicit SelfClearing(int v)
    {
        throw_site();
        born(&h, this, 5, v);
    }
    ~SelfClearing()
    {
        if (g_reenter && h.magic == ALIVE)
        {
            nitro::lang::quaint_ptr* q = g_reenter;
            g_reenter = nullptr;
            p_reenter++;
            if (g_reenter_how == 1)
                q->reset();
            else
                *q = nullptr;
        }
        died(&h, this, 5);
    }
};

// A trivially destructible payload whose storage comes from, and has to go back to, the class's own
// allocation functions (a pooled or instance-counting type): "destroyed by the type it was created
// with" here means released through Pooled::operator delete, which is where its death is recorded.
struct Pooled
{
    Head h;
    explicit Pooled(int v)
    {
        throw_site();
        born(&h, this, 6, v);
    }
    static void* operator new(std::size_t n)
    {
        return ::operator new(n);
    }
    static void operator delete(void* p)
    {
        bool known;
        {
            NoFault nf;
            known = g_reg.live.count(p) != 0;
        }
        if (known) // (not known: clean-up after the constructor threw)
            died(static_cast<Head*>(p), p, 6);
        ::operator delete(p);
    }
};
static_assert(std::is_trivially_destructible<Pooled>::value, "Pooled must stay trivially destructible");

// payload of the optionals: copyable, instance-counted
struct OptVal
{
    Head h;
    explicit OptVal(int v)
    {
        throw_site();
        born(&h, this, 3, v);
    }
    OptVal(const OptVal& o)
    {
        throw_site();
        born(&h, this, 3, o.h.val);
    }
    OptVal(OptVal&& o)
    {
        throw_site();
        born(&h, this, 3, o.h.val);
        o.h.val = -7; // moved-from
    }
    OptVal& operator=(const OptVal& o)
    {
        throw_site();
        h.val = o.h.val;
        return *this;
    }
    ~OptVal()
    {
        died(&h, this, 3);
    }
};
using Opt = nitro::lang::optional<OptVal>;

enum Kind
{
    K_MAKE,
    K_MOVE_CONSTRUCT,
    K_MOVE_ASSIGN,
    K_RESET,
    K_ASSIGN_NULL,
    K_OBSERVE,
    K_DESTROY,
    K_VEC_PUSH,
    K_VEC_EMPLACE,
    K_VEC_POP,
    K_VEC_ERASE,
    K_VEC_CLEAR,
    K_VEC_SHRINK,
    K_VEC_TAKE,
    K_OPT_DEFAULT,
    K_OPT_VALUE,
    K_OPT_RVALUE,
    K_OPT_COPY_CONSTRUCT,
    K_OPT_COPY_ASSIGN,
    K_OPT_ASSIGN_VALUE,
    K_OPT_ASSIGN_RVALUE,
    K_OPT_READ,
    K_OPT_DESTROY,
    K_SWAP,     // using std::swap; swap(a, b) on two owning pointers
    K_OPT_BOOL, // optional<bool>: copies keep engagement and value
    K_N
};
const std::vector<OpSchema>& own_schema()
{
    static const std::vector<OpSchema> s = {
        { "make", { "slot", "type", "val" } },
        { "move_construct", { "slot", "from" } },
        { "move_assign", { "slot", "from" } },
        { "reset", { "slot", "reenter" } },
        { "assign_null", { "slot", "reenter" } },
        { "observe", { "slot" } },
        { "destroy", { "slot" } },
        { "vec_push", { "slot" } },
        { "vec_emplace", { "type", "val" } },
        { "vec_pop", {} },
        { "vec_erase", { "idx" } },
        { "vec_clear", {} },
        { "vec_shrink", {} },
        { "vec_take", { "slot", "idx" } },
        { "opt_default", { "opt" } },
        { "opt_value", { "opt", "val", "lvalue" } },
        { "opt_rvalue", { "opt", "val" } },
        { "opt_copy_construct", { "opt", "from" } },
        { "opt_copy_assign", { "opt", "from" } },
        { "opt_assign_value", { "opt", "val", "lvalue" } },
        { "opt_assign_rvalue", { "opt", "val" } },
        { "opt_read", { "opt" } },
        { "opt_destroy", { "opt" } },
        { "swap", { "slot", "other" } },
        { "opt_bool", { "state", "how" } },
    };
    return s;
}

constexpr int NSLOT = 4, NOPT = 4;

quaint_ptr make_typed(int type, int val)
{
    switch (type % 6)
    {
    case 5:
        return nitro::lang::make_quaint<Pooled>(val);
    case 4:
        return nitro::lang::make_quaint<SelfClearing>(val);
    case 3:
        return nitro::lang::make_quaint<Multi>(val);
    case 0:
        return nitro::lang::make_quaint<Small>(val);
    case 1:
        return nitro::lang::make_quaint<Heapy>(val);
    default:
        return nitro::lang::make_quaint<Large>(val);
    }
}

enum Res
{
    RS_OK,
    RS_RAISED,
    RS_INJECTED,
    RS_BADALLOC,
    RS_OTHER
};
template <typename F>
Res guarded(F&& f)
{
    try
    {
        FaultWindow w;
        f();
        return RS_OK;
    }
    catch (InjectedThrow&)
    {
        return RS_INJECTED;
    }
    catch (std::bad_alloc&)
    {
        return RS_BADALLOC;
    }
    catch (std::exception&)
    {
        return RS_RAISED;
    }
    catch (...)
    {
        return RS_OTHER;
    }
}

struct Exec
{
    // real objects
    quaint_ptr* slot[NSLOT] = { nullptr, nullptr, nullptr, nullptr };
    std::vector<quaint_ptr>* vec = nullptr;
    Opt* opt[NOPT] = { nullptr, nullptr, nullptr, nullptr };
    // model: serial owned (0 = empty), -1 = object does not exist
    int64_t mslot[NSLOT] = { -1, -1, -1, -1 };
    std::vector<int64_t> mvec;
    struct MOpt
    {
        bool exists = false, engaged = false;
        int val = 0;
    } mopt[NOPT];
    Outcome out;
    Fnv h;
    bool stop = false;
    bool last_by_fault = false;
    int real_ops = 0;

    void fail(const char* cls, const Op& op, int opi, const std::string& arg, const std::string& detail)
    {
        if (stop)
            return;
        stop = true;
        out.violated = true;
        out.v.cls = cls;
        out.v.sig = std::string("op=") + own_schema()[op.kind].name + " arg=" + arg;
        out.v.op = opi;
        out.v.detail = detail;
    }

    uint32_t serial_at(const void* p)
    {
        NoFault nf;
        auto it = g_reg.live.find(p);
        return it == g_reg.live.end() ? 0 : it->second.serial;
    }

    // conservation: what the real objects own == what is alive (nothing leaked, nothing destroyed early)
    void conserve(const Op& op, int opi, const std::string& arg, bool strict)
    {
        NoFault nf;
        std::set<uint32_t> owned;
        size_t owned_ptrs = 0;
        auto see = [&](const quaint_ptr& q, const char* where) {
            void* p = q.get();
            if (static_cast<bool>(q) != (p != nullptr))
                fail("C18/moved-from-not-empty", op, opi, arg, std::string(where) + ": operator bool and get() disagree");
            if (!p)
                return;
            ++owned_ptrs;
            uint32_t s = serial_at(p);
            if (!s)
                return fail("C18/early-destroy", op, opi, arg, std::string(where) + " owns a payload that has already been destroyed");
            if (!owned.insert(s).second)
                fail("C18/double-destroy", op, opi, arg, "two owners hold the same payload");
        };
        for (int i = 0; i < NSLOT && !stop; i++)
            if (slot[i])
                see(*slot[i], "slot");
        if (vec)
            for (auto& q : *vec)
                if (!stop)
                    see(q, "vector element");
        for (int i = 0; i < NOPT && !stop; i++)
            if (opt[i] && static_cast<bool>(*opt[i]))
            {
                const OptVal* p = &**opt[i];
                uint32_t s = serial_at(p);
                if (!s)
                    return fail("C18/early-destroy", op, opi, arg, "optional holds a destroyed value");
                if (!owned.insert(s).second)
                    fail("C18/optional:aliased", op, opi, arg, "two optionals share one value object");
            }
        if (stop)
            return;
        if (owned.size() != g_reg.live.size())
            return fail("C18/leak", op, opi, arg,
                        std::to_string(g_reg.live.size()) + " payload(s) alive but only " + std::to_string(owned.size()) + " owned");
        if (!strict)
        {
            // resynchronise the model from the real objects
            for (int i = 0; i < NSLOT; i++)
                mslot[i] = slot[i] ? static_cast<int64_t>(slot[i]->get() ? serial_at(slot[i]->get()) : 0) : -1;
            mvec.clear();
            if (vec)
                for (auto& q : *vec)
                    mvec.push_back(q.get() ? serial_at(q.get()) : 0);
            for (int i = 0; i < NOPT; i++)
            {
                mopt[i].exists = opt[i] != nullptr;
                mopt[i].engaged = opt[i] && static_cast<bool>(*opt[i]);
                if (mopt[i].engaged)
                    mopt[i].val = (**opt[i]).h.val;
            }
            return;
        }
        // strict: ownership is exactly where the model says
        for (int i = 0; i < NSLOT; i++)
        {
            int64_t want = mslot[i];
            if ((want == -1) != (slot[i] == nullptr))
                continue;
            if (!slot[i])
                continue;
            uint32_t got = slot[i]->get() ? serial_at(slot[i]->get()) : 0;
            if (static_cast<int64_t>(got) != want)
                return fail(want == 0 ? "C18/moved-from-not-empty" : "C18/early-destroy", op, opi, arg,
                            "slot " + std::to_string(i) + " owns serial " + std::to_string(got) + " model " + std::to_string(want));
        }
        if (vec)
        {
            if (vec->size() != mvec.size())
                return fail("C18/leak", op, opi, arg, "vector size differs from model");
            for (size_t i = 0; i < mvec.size(); i++)
            {
                uint32_t got = (*vec)[i].get() ? serial_at((*vec)[i].get()) : 0;
                if (static_cast<int64_t>(got) != mvec[i])
                    return fail("C18/early-destroy", op, opi, arg, "vector element " + std::to_string(i) + " owns serial " + std::to_string(got) + " model " + std::to_string(mvec[i]));
            }
        }
        for (int i = 0; i < NOPT; i++)
        {
            if (!opt[i])
                continue;
            bool eng = static_cast<bool>(*opt[i]);
            if (eng != mopt[i].engaged)
                return fail(mopt[i].engaged ? "C18/optional:value" : "C18/optional:assign-empty", op, opi, arg,
                            "optional " + std::to_string(i) + (eng ? " holds a value, model says empty" : " is empty, model says engaged"));
            if (eng && (**opt[i]).h.val != mopt[i].val)
                return fail("C18/optional:value", op, opi, arg, "optional " + std::to_string(i) + " holds " + std::to_string((**opt[i]).h.val) + " model " + std::to_string(mopt[i].val));
        }
    }

    void step(const Op& op, int opi)
    {
        FaultCtl& f = fctl();
        f.armed_kind = op.fkind;
        f.armed_idx = op.fidx;
        f.count[FK_ALLOC] = f.count[FK_THROW] = 0;
        f.fired = false;
        Res res = RS_OK;
        bool executed = true;
        bool must_raise = false;
        std::string arg = "-";
        h.add(static_cast<uint64_t>(op.kind));
        int si = static_cast<int>(((op.a[0] % NSLOT) + NSLOT) % NSLOT);
        int oi = static_cast<int>(((op.a[0] % NOPT) + NOPT) % NOPT);
        // model after success
        int64_t nslot[NSLOT];
        std::copy(mslot, mslot + NSLOT, nslot);
        std::vector<int64_t> nvec = mvec;
        MOpt nopt[NOPT];
        std::copy(mopt, mopt + NOPT, nopt);
        uint32_t next_serial = g_reg.next_serial;

        switch (op.kind)
        {
        case K_MAKE:
        {
            int type = static_cast<int>(op.a[1] % 6), val = static_cast<int>(op.a[2] % 100);
            if (!slot[si])
            {
                NoFault nf;
                slot[si] = new quaint_ptr();
                mslot[si] = nslot[si] = 0;
            }
            arg = mslot[si] > 0 ? "occupied" : "empty";
            if (mslot[si] > 0)
                p_overwrite++;
            res = guarded([&] { *slot[si] = make_typed(type, val); });
            nslot[si] = next_serial;
            if (res == RS_OK)
                p_types[type]++;
            if (f.fired)
                p_fault_make++;
            break;
        }
        case K_MOVE_CONSTRUCT:
        {
            int from = static_cast<int>(((op.a[1] % NSLOT) + NSLOT) % NSLOT);
            if (from == si || !slot[from])
            {
                executed = false;
                break;
            }
            if (slot[si])
            {
                NoFault nf;
                delete slot[si];
                slot[si] = nullptr;
                mslot[si] = nslot[si] = -1;
                NoFault nf2;
            }
            arg = mslot[from] > 0 ? "from-engaged" : "from-empty";
            quaint_ptr* np = nullptr;
            res = guarded([&] { np = new quaint_ptr(std::move(*slot[from])); });
            if (res == RS_OK)
                slot[si] = np;
            nslot[si] = mslot[from];
            nslot[from] = 0;
            break;
        }
        case K_MOVE_ASSIGN:
        {
            int from = static_cast<int>(((op.a[1] % NSLOT) + NSLOT) % NSLOT);
            if (from == si || !slot[from] || !slot[si])
            {
                executed = false;
                break;
            }
            arg = std::string(mslot[si] > 0 ? "target-engaged" : "target-empty") + (mslot[from] > 0 ? ",from-engaged" : ",from-empty");
            if (mslot[si] > 0)
                p_overwrite++;
            res = guarded([&] { *slot[si] = std::move(*slot[from]); });
            nslot[si] = mslot[from];
            nslot[from] = 0;
            break;
        }
        case K_RESET:
        case K_ASSIGN_NULL:
            if (!slot[si])
            {
                executed = false;
                break;
            }
            arg = mslot[si] > 0 ? "engaged" : "empty";
            g_reenter_how = static_cast<int>(op.a[1] % 3);
            g_reenter = g_reenter_how ? slot[si] : nullptr;
            if (op.kind == K_RESET)
                res = guarded([&] { slot[si]->reset(); });
            else
                res = guarded([&] { *slot[si] = nullptr; });
            g_reenter = nullptr;
            nslot[si] = 0;
            break;
        case K_OBSERVE:
        {
            if (!slot[si])
            {
                executed = false;
                break;
            }
            arg = mslot[si] > 0 ? "engaged" : "empty";
            if (mslot[si] == 0)
                p_moved_from_use++;
            bool b = false;
            void* p = nullptr;
            int val = -1, type = -1;
            res = guarded([&] {
                b = static_cast<bool>(*slot[si]);
                p = slot[si]->get();
                if (p)
                {
                    const Head& hd = slot[si]->as<Head>();
                    val = hd.val;
                    type = hd.type;
                }
            });
            if (res == RS_OK)
            {
                if ((mslot[si] > 0) != b || (mslot[si] > 0) != (p != nullptr))
                    fail("C18/moved-from-not-empty", op, opi, arg, "pointer state differs from model (bool/get)");
            }
            (void)val;
            (void)type;
            break;
        }
        case K_DESTROY:
            if (!slot[si])
            {
                executed = false;
                break;
            }
            arg = mslot[si] > 0 ? "engaged" : "empty";
            res = guarded([&] {
                NoFault nf;
                delete slot[si];
            });
            slot[si] = nullptr;
            nslot[si] = -1;
            break;
        case K_VEC_PUSH:
        {
            if (!slot[si])
            {
                executed = false;
                break;
            }
            if (!vec)
            {
                NoFault nf;
                vec = new std::vector<quaint_ptr>();
            }
            arg = mslot[si] > 0 ? "engaged" : "empty";
            if (vec->size() == vec->capacity() && !vec->empty())
                p_realloc++;
            res = guarded([&] { vec->push_back(std::move(*slot[si])); });
            nvec.push_back(mslot[si]);
            nslot[si] = 0;
            if (f.fired)
                p_fault_vec++;
            break;
        }
        case K_VEC_EMPLACE:
        {
            int type = static_cast<int>(op.a[0] % 6), val = static_cast<int>(op.a[1] % 100);
            if (!vec)
            {
                NoFault nf;
                vec = new std::vector<quaint_ptr>();
            }
            if (vec->size() == vec->capacity() && !vec->empty())
                p_realloc++;
            res = guarded([&] { vec->emplace_back(make_typed(type, val)); });
            nvec.push_back(next_serial);
            if (f.fired)
                p_fault_vec++;
            break;
        }
        case K_VEC_POP:
            if (!vec || vec->empty())
            {
                executed = false;
                break;
            }
            res = guarded([&] { vec->pop_back(); });
            nvec.pop_back();
            break;
        case K_VEC_ERASE:
        {
            if (!vec || vec->empty())
            {
                executed = false;
                break;
            }
            size_t idx = static_cast<size_t>(op.a[0]) % vec->size();
            arg = idx + 1 == vec->size() ? "last" : "middle";
            res = guarded([&] { vec->erase(vec->begin() + static_cast<long>(idx)); });
            nvec.erase(nvec.begin() + static_cast<long>(idx));
            break;
        }
        case K_VEC_CLEAR:
            if (!vec)
            {
                executed = false;
                break;
            }
            res = guarded([&] { vec->clear(); });
            nvec.clear();
            break;
        case K_VEC_SHRINK:
            if (!vec)
            {
                executed = false;
                break;
            }
            res = guarded([&] { vec->shrink_to_fit(); });
            break;
        case K_VEC_TAKE:
        {
            if (!vec || vec->empty() || !slot[si])
            {
                executed = false;
                break;
            }
            size_t idx = static_cast<size_t>(op.a[1]) % vec->size();
            arg = mslot[si] > 0 ? "target-engaged" : "target-empty";
            res = guarded([&] { *slot[si] = std::move((*vec)[idx]); });
            nslot[si] = mvec[idx];
            nvec[idx] = 0;
            break;
        }
        case K_SWAP:
        {
            int other = static_cast<int>(((op.a[1] % NSLOT) + NSLOT) % NSLOT);
            if (other == si || !slot[si] || !slot[other])
            {
                executed = false;
                break;
            }
            arg = std::string(mslot[si] > 0 ? "engaged" : "empty") + (mslot[other] > 0 ? ",engaged" : ",empty");
            p_swap++;
            res = guarded([&] {
                using std::swap;
                swap(*slot[si], *slot[other]);
            });
            std::swap(nslot[si], nslot[other]);
            break;
        }
        case K_OPT_BOOL:
        {
            // optional<bool>: a value type that is itself contextually convertible to bool must not
            // confuse copies (engagement and value survive every way of copying)
            int state = static_cast<int>(op.a[0] % 3), how = static_cast<int>(op.a[1] % 4);
            arg = state == 0 ? "empty" : state == 1 ? "false" : "true";
            bool ok = true;
            std::string why;
            res = guarded([&] {
                using OB = nitro::lang::optional<bool>;
                OB a;
                if (state == 1)
                    a = false;
                else if (state == 2)
                    a = true;
                OB target;
                if (how == 0)
                {
                    OB b(a); // from a non-const lvalue
                    ok = static_cast<bool>(b) == (state != 0) && (state == 0 || *b == (state == 2));
                    why = "copy construction from a non-const lvalue";
                }
                else if (how == 1)
                {
                    OB b(static_cast<const OB&>(a));
                    ok = static_cast<bool>(b) == (state != 0) && (state == 0 || *b == (state == 2));
                    why = "copy construction from a const lvalue";
                }
                else if (how == 2)
                {
                    target = true;
                    target = a; // from a non-const lvalue
                    ok = static_cast<bool>(target) == (state != 0) && (state == 0 || *target == (state == 2));
                    why = "copy assignment from a non-const lvalue";
                }
                else
                {
                    target = false;
                    target = static_cast<const OB&>(a);
                    ok = static_cast<bool>(target) == (state != 0) && (state == 0 || *target == (state == 2));
                    why = "copy assignment from a const lvalue";
                }
            });
            p_optbool++;
            if (res == RS_OK && !ok)
                fail("C18/optional:value", op, opi, arg, "optional<bool>: " + why + " changed engagement or value");
            break;
        }
        case K_OPT_DEFAULT:
        case K_OPT_VALUE:
        case K_OPT_RVALUE:
        {
            if (opt[oi])
            {
                NoFault nf;
                delete opt[oi];
                opt[oi] = nullptr;
                mopt[oi] = nopt[oi] = MOpt();
            }
            int val = static_cast<int>(op.a[1] % 100);
            Opt* np = nullptr;
            if (op.kind == K_OPT_DEFAULT)
                res = guarded([&] { np = new Opt(); });
            else
            {
                NoFault nf0;
                OptVal tmp(val);
                if (op.kind == K_OPT_VALUE)
                {
                    if (op.a[2] & 1)
                        res = guarded([&] { np = new Opt(tmp); });
                    else
                        res = guarded([&] { np = new Opt(static_cast<const OptVal&>(tmp)); });
                    if (tmp.h.val != val)
                        fail("C18/optional:aliased", op, opi, arg, "constructing from a const value modified the caller's object");
                }
                else
                    res = guarded([&] { np = new Opt(std::move(tmp)); });
            }
            if (res == RS_OK)
                opt[oi] = np;
            nopt[oi] = MOpt{ true, op.kind != K_OPT_DEFAULT, val };
            break;
        }
        case K_OPT_COPY_CONSTRUCT:
        {
            int from = static_cast<int>(((op.a[1] % NOPT) + NOPT) % NOPT);
            if (from == oi || !opt[from])
            {
                executed = false;
                break;
            }
            if (opt[oi])
            {
                NoFault nf;
                delete opt[oi];
                opt[oi] = nullptr;
                mopt[oi] = nopt[oi] = MOpt();
            }
            arg = mopt[from].engaged ? "from-engaged" : "from-empty";
            Opt* np = nullptr;
            res = guarded([&] { np = new Opt(static_cast<const Opt&>(*opt[from])); });
            if (res == RS_OK)
                opt[oi] = np;
            nopt[oi] = MOpt{ true, mopt[from].engaged, mopt[from].val };
            if (f.fired)
                p_fault_opt++;
            break;
        }
        case K_OPT_COPY_ASSIGN:
        {
            int from = static_cast<int>(((op.a[1] % NOPT) + NOPT) % NOPT);
            if (!opt[from] || !opt[oi])
            {
                executed = false;
                break;
            }
            if (from == oi)
                p_self_assign++; // a = a leaves the optional as it is
            arg = std::string(mopt[oi].engaged ? "target-engaged" : "target-empty") + (mopt[from].engaged ? ",from-engaged" : ",from-empty") + (from == oi ? ",self" : "");
            if (mopt[oi].engaged && !mopt[from].engaged)
                p_assign_empty++;
            res = guarded([&] { *opt[oi] = static_cast<const Opt&>(*opt[from]); });
            nopt[oi] = MOpt{ true, mopt[from].engaged, mopt[from].val };
            if (f.fired)
                p_fault_opt++;
            break;
        }
        case K_OPT_ASSIGN_VALUE:
        case K_OPT_ASSIGN_RVALUE:
        {
            if (!opt[oi])
            {
                executed = false;
                break;
            }
            int val = static_cast<int>(op.a[1] % 100);
            arg = mopt[oi].engaged ? "target-engaged" : "target-empty";
            for (int k = 0; k < NOPT; k++)
                if (k != oi && mopt[k].exists && mopt[k].engaged && mopt[oi].engaged)
                {
                    p_copy_mutate++;
                    break;
                }
            {
                NoFault nf0;
                OptVal tmp(val);
                if (op.kind == K_OPT_ASSIGN_VALUE)
                {
                    // from a const lvalue or from a plain (non-const) lvalue the caller keeps using
                    if (op.a[2] & 1)
                        res = guarded([&] { *opt[oi] = tmp; });
                    else
                        res = guarded([&] { *opt[oi] = static_cast<const OptVal&>(tmp); });
                    if (tmp.h.val != val)
                        fail("C18/optional:aliased", op, opi, arg, "assigning from a const value modified the caller's object");
                }
                else
                    res = guarded([&] { *opt[oi] = std::move(tmp); });
            }
            nopt[oi] = MOpt{ true, true, val };
            break;
        }
        case K_OPT_READ:
        {
            if (!opt[oi])
            {
                executed = false;
                break;
            }
            arg = mopt[oi].engaged ? "engaged" : "empty";
            must_raise = !mopt[oi].engaged;
            if (must_raise)
                p_read_empty++;
            int got = -1;
            res = guarded([&] { got = (**opt[oi]).h.val; });
            if (res == RS_OK && !must_raise && got != mopt[oi].val)
                fail("C18/optional:value", op, opi, arg, "read " + std::to_string(got) + " model " + std::to_string(mopt[oi].val));
            break;
        }
        case K_OPT_DESTROY:
            if (!opt[oi])
            {
                executed = false;
                break;
            }
            arg = mopt[oi].engaged ? "engaged" : "empty";
            res = guarded([&] {
                NoFault nf;
                delete opt[oi];
            });
            opt[oi] = nullptr;
            nopt[oi] = MOpt();
            break;
        default:
            executed = false;
        }
        out.sites.push_back(std::array<int, FK_N>{ 0, f.count[FK_ALLOC], f.count[FK_THROW] });
        h.add(executed);
        f.armed_kind = FK_NONE;
        if (!executed)
            return;
        ++real_ops;
        h.add(static_cast<uint64_t>(res));
        h.add(f.fired);
        if (stop)
            return;
        if (g_reg.has_pending)
            return fail(g_reg.pending.cls.c_str(), op, opi, arg, g_reg.pending.detail);
        bool by_fault = f.fired && ((res == RS_INJECTED && f.fired_kind == FK_THROW) || (res == RS_BADALLOC && f.fired_kind == FK_ALLOC));
        if (by_fault)
        {
            // the injected exception left the call.  No leak, nothing destroyed early, and the
            // target of a failed make / copy-assign keeps its old value.
            conserve(op, opi, arg + " fault", false);
            if (stop)
            {
                if (out.v.cls == "C18/leak" || out.v.cls == "C18/early-destroy")
                    out.v.cls = out.v.cls == "C18/leak" ? "C18/fault:leak" : "C18/fault:early-destroy";
                return;
            }
            last_by_fault = true;
            return;
        }
        if (res == RS_INJECTED || res == RS_BADALLOC || res == RS_OTHER)
            return fail("C18/fault:wrong-exception", op, opi, arg, "operation ended with an exception that was not injected into it");
        if (must_raise)
        {
            if (res == RS_OK)
                return fail("C18/optional:read-empty-no-raise", op, opi, arg, "reading an empty optional returned normally");
        }
        else if (res != RS_OK)
            return fail(f.fired ? "C18/fault:wrong-exception" : "C18/spurious-raise", op, opi, arg, "operation raised although it can be satisfied");
        if (res == RS_OK && !must_raise)
        {
            std::copy(nslot, nslot + NSLOT, mslot);
            mvec = nvec;
            std::copy(nopt, nopt + NOPT, mopt);
        }
        conserve(op, opi, arg, true);
    }

    Outcome run(const Plan& plan)
    {
        g_reg.reset();
        fctl() = FaultCtl();
        atrack().enabled = true;
        atrack().reset();
        for (size_t i = 0; i < plan.ops.size() && !stop; i++)
        {
            // remember pre-state of the target of make / copy-assign for the strong-guarantee clause
            const Op& op = plan.ops[i];
            int si = static_cast<int>(((op.a[0] % NSLOT) + NSLOT) % NSLOT);
            int64_t pre_slot = mslot[si];
            MOpt pre_opt = mopt[static_cast<size_t>(((op.a[0] % NOPT) + NOPT) % NOPT)];
            last_by_fault = false;
            step(op, static_cast<int>(i));
            if (!stop && last_by_fault)
            {
                NoFault nf;
                if (op.kind == K_MAKE && slot[si])
                {
                    // the exception left make_quaint / the assignment: the target keeps its old payload
                    int64_t now = slot[si]->get() ? serial_at(slot[si]->get()) : 0;
                    int64_t old = pre_slot < 0 ? 0 : pre_slot;
                    if (now != old)
                        fail("C18/fault:target-lost-old-value", op, static_cast<int>(i), "make", "a failed make_quaint changed its target");
                }
                if (op.kind == K_OPT_COPY_ASSIGN)
                {
                    int oi = static_cast<int>(((op.a[0] % NOPT) + NOPT) % NOPT);
                    if (opt[oi] && pre_opt.exists)
                    {
                        bool eng = static_cast<bool>(*opt[oi]);
                        int from = static_cast<int>(((op.a[1] % NOPT) + NOPT) % NOPT);
                        bool src_state = opt[from] && static_cast<bool>(*opt[from]) == eng && (!eng || (**opt[from]).h.val == (**opt[oi]).h.val);
                        bool old_state = eng == pre_opt.engaged && (!eng || (**opt[oi]).h.val == pre_opt.val);
                        if (!old_state && !src_state)
                            fail("C18/fault:target-lost-old-value", op, static_cast<int>(i), "opt_copy_assign", "a failed optional copy assignment left neither the old nor the new value");
                    }
                }
            }
        }
        Op endop;
        endop.kind = K_DESTROY;
        {
            NoFault nf;
            for (int i = 0; i < NSLOT; i++)
            {
                delete slot[i];
                slot[i] = nullptr;
            }
            delete vec;
            vec = nullptr;
            for (int i = 0; i < NOPT; i++)
            {
                delete opt[i];
                opt[i] = nullptr;
            }
        }
        if (!stop && g_reg.has_pending)
            fail(g_reg.pending.cls.c_str(), endop, static_cast<int>(plan.ops.size()), "end-of-run", g_reg.pending.detail);
        if (!stop && !g_reg.live.empty())
            fail("C18/leak", endop, static_cast<int>(plan.ops.size()), "end-of-run", std::to_string(g_reg.live.size()) + " payload(s) alive after every owner is gone");
        if (!stop && atrack().live())
            fail("C18/leak", endop, static_cast<int>(plan.ops.size()), "raw-storage",
                 std::to_string(atrack().live()) + " block(s) allocated by the operations were never freed although every owner is gone");
        fctl() = FaultCtl();
        h.add(out.violated);
        if (out.violated)
            h.adds(out.v.cls);
        out.hash = h.h;
        out.steps = g_reg.ops;
        out.nontrivial = real_ops >= 3;
        return out;
    }
};

class OwnEngine : public Engine
{
public:
    const char* name() const override
    {
        return "ownsim";
    }
    uint64_t tag() const override
    {
        return 0x0C18;
    }
    const std::vector<OpSchema>& schema() const override
    {
        return own_schema();
    }
    bool has_fault_arm(const std::string&) const override
    {
        return true;
    }
    std::vector<std::string> real_components() const override
    {
        return { "nitro::lang::quaint_ptr, make_quaint", "nitro::lang::optional<T>", "std::vector<quaint_ptr>, std::unique_ptr, std::function" };
    }
    std::vector<std::string> stub_components() const override
    {
        return { "payload types Small/Heapy/Large/Multi/SelfClearing/Pooled/OptVal (instance-counting, creation-type tagged, constructors can throw; SelfClearing resets its owner from its destructor)",
                 "global operator new (k-th allocation in an operation fails)" };
    }
    Plan generate(Rng& rng, const Config&, int) override
    {
        Plan p;
        bool enabled[K_N];
        for (int k = 0; k < K_N; k++)
            enabled[k] = !rng.chance(1, 5);
        int mode = static_cast<int>(rng.below(4)); // 0 pointers only, 1 optionals only, 2-3 both
        p.knobs.emplace_back("mode", mode);
        int nops = rng.range(3, 16);
        static const int ptr_kinds[] = { K_SWAP, K_SWAP, K_MAKE, K_MAKE, K_MAKE, K_MOVE_CONSTRUCT, K_MOVE_ASSIGN, K_MOVE_ASSIGN, K_RESET, K_ASSIGN_NULL,
                                         K_OBSERVE, K_DESTROY, K_VEC_PUSH, K_VEC_PUSH, K_VEC_EMPLACE, K_VEC_EMPLACE, K_VEC_POP, K_VEC_ERASE,
                                         K_VEC_CLEAR, K_VEC_SHRINK, K_VEC_TAKE };
        static const int opt_kinds[] = { K_OPT_BOOL, K_OPT_DEFAULT, K_OPT_VALUE, K_OPT_VALUE, K_OPT_RVALUE, K_OPT_COPY_CONSTRUCT, K_OPT_COPY_CONSTRUCT,
                                         K_OPT_COPY_ASSIGN, K_OPT_COPY_ASSIGN, K_OPT_COPY_ASSIGN, K_OPT_ASSIGN_VALUE, K_OPT_ASSIGN_RVALUE,
                                         K_OPT_READ, K_OPT_READ, K_OPT_DESTROY };
        for (int n = 0; n < nops; n++)
        {
            Op op;
            bool ptr = mode == 0 || (mode >= 2 && rng.chance(3, 5));
            for (int tries = 0; tries < 5; tries++)
            {
                op.kind = ptr ? ptr_kinds[rng.below(sizeof ptr_kinds / sizeof(int))] : opt_kinds[rng.below(sizeof opt_kinds / sizeof(int))];
                if (enabled[op.kind])
                    break;
            }
            for (int k = 0; k < 3; k++)
                op.a[k] = static_cast<int64_t>(rng.below(k == 2 ? 100 : 8));
            if (op.kind == K_OPT_VALUE || op.kind == K_OPT_RVALUE || op.kind == K_OPT_ASSIGN_VALUE || op.kind == K_OPT_ASSIGN_RVALUE)
                op.a[1] = static_cast<int64_t>(rng.below(100));
            p.ops.push_back(op);
        }
        return p;
    }
    Outcome execute(const Plan& plan, const Config&) override
    {
        Exec x;
        Outcome o = x.run(plan);
        if (o.violated && o.v.sig.find("raw-storage") != std::string::npos)
        {
            // Blocks that were allocated inside the operations and are still there.  Memory that code
            // allocates once and keeps (a function-local static, a lazily built table) is not a leak
            // of these operations: it does not come back when the same history runs again.
            Exec y;
            return y.run(plan);
        }
        return o;
    }
    bool fault_ok(const Op& op, int) const override
    {
        return op.kind != K_DESTROY && op.kind != K_OPT_DESTROY && op.kind != K_OBSERVE;
    }
};
} // namespace

int main(int argc, char** argv)
{
    OwnEngine e;
    return sim_main(argc, argv, e);
}
