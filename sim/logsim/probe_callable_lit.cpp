// can a callable returning const char* (convertible to std::string) be streamed, in both forms?
#include "probe_common.hpp"
struct Lit
{
    const char* operator()() const
    {
        return "x";
    }
};
void probe_fn()
{
    probe::L::fatal() << Lit{};
    auto s = probe::L::fatal();
    s << Lit{};
}
