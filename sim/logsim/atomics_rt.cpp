// Stand-in for the ThreadSanitizer runtime, used by the "atomics" variant of logsim only.
//
// That variant compiles the engine (and with it the header-only code under test) with
// -fsanitize=thread, which makes the compiler turn every atomic operation into a call of
// __tsan_atomicN_xxx() and every plain memory access into __tsan_readN/__tsan_writeN().  The real
// runtime is NOT linked.  The functions below perform the operation and, for atomics, first give
// the simulator's scheduler a chance to preempt the calling thread: lock-free code (free lists,
// flags, double-checked paths, spin locks that never yield) thereby gets preemption points exactly
// where its correctness argument lives.  Plain accesses are not yield points (no-ops).
//
// This file itself is compiled WITHOUT -fsanitize=thread, so the __atomic builtins here are the
// real instructions.  All operations are performed sequentially consistent: under a serialising
// scheduler one thread runs at a time, weaker orders could not be observed anyway.
#include <cstddef>
#include <cstdint>

extern "C" void lsim_atomic_yield(void); // logsim.cpp

typedef unsigned char a8;
typedef unsigned short a16;
typedef unsigned int a32;
typedef unsigned long long a64;
typedef unsigned __int128 a128;

#define ATOMIC_OPS(N)                                                                                          \
    extern "C" a##N __tsan_atomic##N##_load(const volatile a##N* p, int)                                       \
    {                                                                                                          \
        lsim_atomic_yield();                                                                                   \
        return __atomic_load_n(p, __ATOMIC_SEQ_CST);                                                           \
    }                                                                                                          \
    extern "C" void __tsan_atomic##N##_store(volatile a##N* p, a##N v, int)                                    \
    {                                                                                                          \
        lsim_atomic_yield();                                                                                   \
        __atomic_store_n(p, v, __ATOMIC_SEQ_CST);                                                              \
    }                                                                                                          \
    extern "C" a##N __tsan_atomic##N##_exchange(volatile a##N* p, a##N v, int)                                 \
    {                                                                                                          \
        lsim_atomic_yield();                                                                                   \
        return __atomic_exchange_n(p, v, __ATOMIC_SEQ_CST);                                                    \
    }                                                                                                          \
    extern "C" a##N __tsan_atomic##N##_fetch_add(volatile a##N* p, a##N v, int)                                \
    {                                                                                                          \
        lsim_atomic_yield();                                                                                   \
        return __atomic_fetch_add(p, v, __ATOMIC_SEQ_CST);                                                     \
    }                                                                                                          \
    extern "C" a##N __tsan_atomic##N##_fetch_sub(volatile a##N* p, a##N v, int)                                \
    {                                                                                                          \
        lsim_atomic_yield();                                                                                   \
        return __atomic_fetch_sub(p, v, __ATOMIC_SEQ_CST);                                                     \
    }                                                                                                          \
    extern "C" a##N __tsan_atomic##N##_fetch_and(volatile a##N* p, a##N v, int)                                \
    {                                                                                                          \
        lsim_atomic_yield();                                                                                   \
        return __atomic_fetch_and(p, v, __ATOMIC_SEQ_CST);                                                     \
    }                                                                                                          \
    extern "C" a##N __tsan_atomic##N##_fetch_or(volatile a##N* p, a##N v, int)                                 \
    {                                                                                                          \
        lsim_atomic_yield();                                                                                   \
        return __atomic_fetch_or(p, v, __ATOMIC_SEQ_CST);                                                      \
    }                                                                                                          \
    extern "C" a##N __tsan_atomic##N##_fetch_xor(volatile a##N* p, a##N v, int)                                \
    {                                                                                                          \
        lsim_atomic_yield();                                                                                   \
        return __atomic_fetch_xor(p, v, __ATOMIC_SEQ_CST);                                                     \
    }                                                                                                          \
    extern "C" a##N __tsan_atomic##N##_fetch_nand(volatile a##N* p, a##N v, int)                               \
    {                                                                                                          \
        lsim_atomic_yield();                                                                                   \
        return __atomic_fetch_nand(p, v, __ATOMIC_SEQ_CST);                                                    \
    }                                                                                                          \
    extern "C" int __tsan_atomic##N##_compare_exchange_strong(volatile a##N* p, a##N* c, a##N v, int, int)     \
    {                                                                                                          \
        lsim_atomic_yield();                                                                                   \
        return __atomic_compare_exchange_n(p, c, v, false, __ATOMIC_SEQ_CST, __ATOMIC_SEQ_CST);                \
    }                                                                                                          \
    extern "C" int __tsan_atomic##N##_compare_exchange_weak(volatile a##N* p, a##N* c, a##N v, int, int)       \
    {                                                                                                          \
        lsim_atomic_yield();                                                                                   \
        return __atomic_compare_exchange_n(p, c, v, false, __ATOMIC_SEQ_CST, __ATOMIC_SEQ_CST);                \
    }                                                                                                          \
    extern "C" a##N __tsan_atomic##N##_compare_exchange_val(volatile a##N* p, a##N c, a##N v, int, int)        \
    {                                                                                                          \
        lsim_atomic_yield();                                                                                   \
        __atomic_compare_exchange_n(p, &c, v, false, __ATOMIC_SEQ_CST, __ATOMIC_SEQ_CST);                      \
        return c;                                                                                              \
    }

ATOMIC_OPS(8)
ATOMIC_OPS(16)
ATOMIC_OPS(32)
ATOMIC_OPS(64)

extern "C"
{
    void __tsan_atomic_thread_fence(int)
    {
        lsim_atomic_yield();
        __atomic_thread_fence(__ATOMIC_SEQ_CST);
    }
    void __tsan_atomic_signal_fence(int)
    {
    }
    void __tsan_init(void)
    {
    }
    void __tsan_func_entry(void*)
    {
    }
    void __tsan_func_exit(void)
    {
    }
    void __tsan_vptr_update(void**, void*)
    {
    }
    void __tsan_vptr_read(void**)
    {
    }
    void __tsan_read_range(void*, long)
    {
    }
    void __tsan_write_range(void*, long)
    {
    }
#define PLAIN(N)                                                                                               \
    void __tsan_read##N(void*)                                                                                 \
    {                                                                                                          \
    }                                                                                                          \
    void __tsan_write##N(void*)                                                                                \
    {                                                                                                          \
    }                                                                                                          \
    void __tsan_unaligned_read##N(void*)                                                                       \
    {                                                                                                          \
    }                                                                                                          \
    void __tsan_unaligned_write##N(void*)                                                                      \
    {                                                                                                          \
    }                                                                                                          \
    void __tsan_volatile_read##N(void*)                                                                        \
    {                                                                                                          \
    }                                                                                                          \
    void __tsan_volatile_write##N(void*)                                                                       \
    {                                                                                                          \
    }
    PLAIN(1)
    PLAIN(2)
    PLAIN(4)
    PLAIN(8)
    PLAIN(16)
}
