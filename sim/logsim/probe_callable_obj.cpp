// can a lambda / function object returning std::string be streamed, in both forms?
#include "probe_common.hpp"
struct Obj
{
    int v;
    std::string operator()() const
    {
        return std::to_string(v);
    }
};
void probe_fn()
{
    probe::L::fatal() << Obj{ 1 } << [] { return std::string("x"); };
    auto s = probe::L::fatal();
    s << Obj{ 2 };
    s << [] { return std::string("y"); };
}
