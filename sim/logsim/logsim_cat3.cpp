// logsim logger catalogue, part 3 of 3 (split so that the heavy template instantiations compile in parallel)
#include "logsim_common.hpp"

namespace lsx
{
void catalogue_part3(std::vector<LoggerEntry>& c)
{
    c.push_back(Ops<RecTag, TF0, nl::sink::stdout_mt>::entry(0, SK_STDOUT_MT));
    c.push_back(Ops<RecTag, TF3, nl::sink::stdout_mt>::entry(3, SK_STDOUT_MT));
    c.push_back(Ops<RecTag, TF0, nl::sink::StdErrThreaded>::entry(0, SK_STDERR_MT));
    c.push_back(Ops<RecNoTag, TF3, nl::sink::StdErrThreaded>::entry(3, SK_STDERR_MT));
    c.push_back(Ops<RecTag, TF0, SeqMt>::entry(0, SK_SEQ_MT));
    c.push_back(Ops<RecNoTag, TF7, SeqMt>::entry(7, SK_SEQ_MT));
    c.push_back(Ops<RecTag, TF8, RecSink<0>>::entry(8, SK_REC));
}
} // namespace lsx
