// logsim logger catalogue, part 2 of 3 (split so that the heavy template instantiations compile in parallel)
#include "logsim_common.hpp"

namespace lsx
{
void catalogue_part2(std::vector<LoggerEntry>& c)
{
    c.push_back(Ops<RecTag, TF4, RecSink<0>>::entry(4, SK_REC));
    c.push_back(Ops<RecNoTag, TF4, Seq3>::entry(4, SK_SEQ3));
    c.push_back(Ops<RecNoTag, TF5, RecSink<0>>::entry(5, SK_REC));
    c.push_back(Ops<RecTag, TF5, Seq3>::entry(5, SK_SEQ3));
    c.push_back(Ops<RecTag, TF6, RecSink<0>>::entry(6, SK_REC));
    c.push_back(Ops<RecNoTag, TF6, Seq3>::entry(6, SK_SEQ3));
    c.push_back(Ops<RecNoTag, TF7, RecSink<0>>::entry(7, SK_REC));
    c.push_back(Ops<RecTag, TF7, Seq3>::entry(7, SK_SEQ3));
}
} // namespace lsx
