// can a std::function<std::string()> be streamed, in both forms?
#include "probe_common.hpp"
void probe_fn()
{
    std::function<std::string()> f = [] { return std::string("x"); };
    probe::L::fatal() << f;
    auto s = probe::L::fatal();
    s << f;
}
