// logsim: the real nitro::log front end (logger, smart_stream/null_stream, filters, sequence,
// stdout_mt, StdErrThreaded) driven by 1-4 simulated threads under the seeded scheduler.
// Decides C05 (exactly-once iff enabled, unaltered), C09 (mt sinks: once, contiguous, ordered)
// and C10 (disabled statements evaluate nothing).  DESIGN.md section 3.1.
#pragma once
#include "sched.hpp"
#include <iomanip>

#ifndef LOGSIM_MIN
#define LOGSIM_MIN 0
#endif
// op-availability probes (bin/check.py compiles sim/logsim/probe_*.cpp on their own): a kind of
// streamed item the front end no longer accepts is compiled out here and reported as a violation
#ifndef LS_MIN_AFTER_HEADER
#define LS_MIN_AFTER_HEADER 1
#endif
#ifndef LS_HAVE_CALLABLE_LIT
#define LS_HAVE_CALLABLE_LIT 1
#endif
#ifndef LS_HAVE_CALLABLE_FN
#define LS_HAVE_CALLABLE_FN 1
#endif
#ifndef LS_HAVE_CALLABLE_OBJ
#define LS_HAVE_CALLABLE_OBJ 1
#endif

#include <nitro/log/log.hpp>

#include <nitro/log/attribute/message.hpp>
#include <nitro/log/attribute/severity.hpp>
#include <nitro/log/attribute/tag.hpp>
#include <nitro/log/attribute/timestamp.hpp>
#include <nitro/log/filter/and_filter.hpp>
#include <nitro/log/filter/not_filter.hpp>
#include <nitro/log/filter/null_filter.hpp>
#include <nitro/log/filter/or_filter.hpp>
#include <nitro/log/filter/severity_filter.hpp>
#include <nitro/log/sink/sequence.hpp>
#include <nitro/log/sink/stderr_mt.hpp>
#include <nitro/log/sink/stdout_mt.hpp>

using namespace sim;
using namespace lsim;
namespace nl = nitro::log;


namespace lsx
{
inline Counter f_flip("fault.cfg.threshold_flip");
inline Counter f_flip_inflight("probe.statement_in_flight_during_threshold_flip");
inline Counter f_flip_ambiguous("probe.statement_verdict_ambiguous_under_flip");
inline Counter f_callable_throw("fault.user.throw.callable");
inline Counter f_chunk("fault.stream.chunk");
inline Counter f_devfail("fault.stream.fail");
inline Counter f_unbuffered("fault.stream.unbuffered");
inline Counter f_tinybuf("fault.stream.tinybuf");
inline Counter f_bigbuf("fault.stream.buffered");
inline Counter p_crowd("probe.run_with_more_than_256_threads");
inline Counter p_unwinding("probe.statement_issued_during_stack_unwinding");
inline Counter p_static_init("probe.statement_issued_during_static_initialisation");
inline Counter p_nothing_streamed("probe.statement_with_nothing_streamed");
inline Counter p_big_record("probe.record_longer_than_4096_bytes");
inline Counter p_named_overlap("probe.two_named_streams_of_one_thread_overlap");
inline Counter p_multi_inflight("probe.statements_of_several_threads_in_flight");
inline Counter p_below_min("probe.statement_below_compile_time_minimum");
inline Counter p_rejected("probe.statement_rejected_by_runtime_filter");
inline Counter p_emitted("probe.statement_emitted");
inline Counter p_callable_emitted("probe.callable_in_emitted_statement");
inline Counter p_callable_rejected("probe.callable_in_rejected_statement");
inline Counter p_mt_records("probe.records_through_mt_sink");
inline Counter p_sequence("probe.records_through_sequence_sink");
inline Counter p_pct("sched.strategy.pct_runs");
inline Counter p_uniform("sched.strategy.uniform_runs");
inline Counter c_switches("sched.context_switches");

constexpr int MIN = LOGSIM_MIN;
const char* const SEVNAME[6] = { "trace", "debug", "info", "warn", "error", "fatal" };

struct CallableThrow
{
};

// ---------------------------------------------------------------- run state
struct Item
{
    char kind = 's';
    int64_t val = 0;
};

struct Stmt
{
    int op = -1;
    int thread = 0, sev = 0, tag = 0, form = 0;
    bool noid = false; // nothing identifies the statement in its message (possibly nothing streamed at all)
    int sink_child = -1;         // statement that sink member 0 issues while it handles this one's record
    bool is_sink_child = false;
    std::vector<Item> items;
    // observations
    bool begun = false, ended = false, threw = false;
    uint32_t begin_seq = 0, end_seq = 0;
    int gates = 0, records = 0;
    int gate_sev = -1;      // what the filter saw (last evaluation)
    std::string gate_tag;
    std::vector<std::array<int, 3>> th_states;
    std::vector<int> put_done;
    struct Call
    {
        int item;
        bool in_bracket;
    };
    std::vector<Call> calls;
    struct Fmt
    {
        uint32_t seq, tseq;
        int thread, sev;
        std::string tag, msg, out;
    };
    std::vector<Fmt> fmts;
    struct Snk
    {
        uint32_t seq, tseq;
        int member, thread, sevarg;
        std::string text;
    };
    std::vector<Snk> sinks;
    std::vector<int> probe_order; // item indices of probe items in the order they were inserted
};

struct TCtx
{
    int cur_stmt = -1;
    int cur_item = -1; // >= 0 while inside the insertion of that item
};

struct G
{
    std::vector<Stmt> stmts;
    TCtx tctx[MAXT];
    int th[3] = { 0, 0, 0 };
    uint32_t seq = 1;
    uint32_t tseq[MAXT] = {}; // per-thread event counters
    int logger = 0;
    bool stop = false;
    Violation v;
    std::vector<std::pair<int, uint32_t>> fmt_order; // (stmt, seq) global order of format events
    uint32_t last_event_kind = 0;
    int inflight = 0;
    char unavailable_item = 0; // an item kind that the front end refuses to compile was drawn
};
inline G g;

inline void flag(const char* cls, const std::string& sig, int op, const std::string& detail)
{
    if (g.stop)
        return;
    NoFault nf;
    g.stop = true;
    g.v.cls = cls;
    g.v.sig = sig;
    g.v.op = op;
    g.v.detail = detail;
}

inline Stmt* cur_stmt()
{
    int me = Scheduler::self_id();
    if (me < 0 || me >= MAXT)
        return nullptr;
    int s = g.tctx[me].cur_stmt;
    if (s < 0 || s >= static_cast<int>(g.stmts.size()))
        return nullptr;
    return &g.stmts[static_cast<size_t>(s)];
}

// ---------------------------------------------------------------- record pieces
struct CountAttr
{
    CountAttr()
    {
        if (Stmt* s = cur_stmt())
            s->records++;
    }
};

using RecTag = nl::record<nl::severity_attribute, nl::message_attribute, nl::tag_attribute,
                          nl::timestamp_clock_attribute<SimClock>, CountAttr>;
using RecNoTag = nl::record<nl::severity_attribute, nl::message_attribute,
                            nl::timestamp_clock_attribute<SimClock>, CountAttr>;

template <typename R>
std::string tag_of(R& r, std::true_type)
{
    return static_cast<const R&>(r).tag();
}
template <typename R>
std::string tag_of(R&, std::false_type)
{
    return std::string();
}

template <typename R>
struct SimFormatter
{
    std::string format(R& r)
    {
        yield(YK_FORMAT);
        NoFault nf;
        constexpr bool has_tag = nl::detail::has_attribute<nl::tag_attribute, R>::value;
        std::string msg = static_cast<const R&>(r).message();
        std::string tag = tag_of(r, std::integral_constant<bool, has_tag>());
        int sev = static_cast<int>(static_cast<const R&>(r).severity());
        std::string out = "{" + std::to_string(sev) + "|" + tag + "|" + std::to_string(msg.size()) + "|" + msg + "}\n";
        Stmt* s = cur_stmt();
        if (s)
        {
            s->fmts.push_back(Stmt::Fmt{ g.seq++, g.tseq[Scheduler::self_id()]++, Scheduler::self_id(), sev, tag, msg, out });
            g.fmt_order.emplace_back(static_cast<int>(s - g.stmts.data()), g.seq - 1);
        }
        else
            flag("C05/spurious", "formatter-without-statement", -1, "formatter called outside any statement: " + msg);
        return out;
    }
};

inline void record_sink(int k, nl::severity_level sev, std::string&& text)
{
    yield(YK_SINK);
    NoFault nf;
    Stmt* s = cur_stmt();
    if (s)
        s->sinks.push_back(Stmt::Snk{ g.seq++, g.tseq[Scheduler::self_id()]++, k, Scheduler::self_id(), static_cast<int>(sev), std::move(text) });
    else
        flag("C05/spurious", "sink-without-statement", -1, "sink called outside any statement");
}

template <int K>
struct RecSink
{
    void sink(nl::severity_level sev, const std::string& text)
    {
        NoFault nf;
        record_sink(K, sev, std::string(text));
    }
};
// member 0 is a "keeping" sink, as a queueing sink would be: it takes the record by value and
// moves it into its store.  Later members of a sequence must still see the whole record.
// (in some runs it also logs through the same logger while it handles a record, as an auditing
// sink would; the record in flight must reach the later members unchanged all the same)
inline void (*g_sink_hook)(int parent_stmt) = nullptr;
template <>
struct RecSink<0>
{
    void sink(nl::severity_level sev, std::string text)
    {
        record_sink(0, sev, std::move(text));
        int me = Scheduler::self_id();
        if (g_sink_hook && me >= 0 && me < MAXT)
            g_sink_hook(g.tctx[me].cur_stmt);
    }
};

// tracing wrapper around a real nitro filter expression
template <typename R, typename Inner>
struct Traced : Inner
{
    typedef R record_type;
    bool filter(R& r) const
    {
        yield(YK_FILTER);
        if (Stmt* s = cur_stmt())
        {
            s->gates++;
            g.tseq[Scheduler::self_id()]++;
            NoFault nf;
            constexpr bool has_tag = nl::detail::has_attribute<nl::tag_attribute, R>::value;
            s->gate_sev = static_cast<int>(static_cast<const R&>(r).severity());
            s->gate_tag = tag_of(r, std::integral_constant<bool, has_tag>());
        }
        return Inner::filter(r);
    }
};

template <typename R>
using S0 = nl::filter::severity_filter<R, 0>;
template <typename R>
using S1 = nl::filter::severity_filter<R, 1>;
template <typename R>
using S2 = nl::filter::severity_filter<R, 2>;
using nl::filter::and_filter;
using nl::filter::not_filter;
using nl::filter::or_filter;

// the catalogue of filter expressions (types) with their reference evaluators
template <typename R>
struct TF0 : Traced<R, S0<R>>
{
};
template <typename R>
struct TF1 : Traced<R, not_filter<S0<R>>>
{
};
template <typename R>
struct TF2 : Traced<R, not_filter<not_filter<S0<R>>>>
{
};
template <typename R>
struct TF3 : Traced<R, and_filter<S0<R>, not_filter<S1<R>>>>
{
};
template <typename R>
struct TF4 : Traced<R, or_filter<S0<R>, not_filter<S1<R>>>>
{
};
template <typename R>
struct TF5 : Traced<R, and_filter<or_filter<S0<R>, S1<R>>, not_filter<S2<R>>>>
{
};
template <typename R>
struct TF6 : Traced<R, or_filter<and_filter<S0<R>, not_filter<S1<R>>>, S2<R>>>
{
};
template <typename R>
struct TF7 : Traced<R, nl::filter::null_filter<R>>
{
};
// a user-supplied filter whose verdict depends on the tag, combined with a threshold: two statements
// of one severity can get different verdicts without any reconfiguration in between
template <typename R>
struct TagNotDb
{
    typedef R record_type;
    bool filter(R& r) const
    {
        return tag_of(r, std::true_type()) != "db core";
    }
};
template <typename R>
struct TF8 : Traced<R, and_filter<S0<R>, TagNotDb<R>>>
{
};

inline bool ref_eval(int expr, const int* th, int sev, int tag = 0)
{
    bool a = sev >= th[0], b = sev >= th[1], c = sev >= th[2];
    switch (expr)
    {
    case 0:
        return a;
    case 1:
        return !a;
    case 2:
        return a;
    case 3:
        return a && !b;
    case 4:
        return a || !b;
    case 5:
        return (a || b) && !c;
    case 6:
        return (a && !b) || c;
    case 8:
        return a && tag != 2; // TAGS[2] == "db core"
    default:
        return true;
    }
}
const char* const EXPRNAME[9] = { "S0", "!S0", "!!S0", "S0&!S1", "S0|!S1", "(S0|S1)&!S2", "(S0&!S1)|S2", "null", "S0&tag!=db" };

enum SinkKind
{
    SK_REC,
    SK_SEQ3,
    SK_STDOUT_MT,
    SK_STDERR_MT,
    SK_SEQ_MT
};
const char* const SINKNAME[5] = { "recording", "sequence<Rec0,Rec1,Rec2>", "stdout_mt", "StdErrThreaded",
                                  "sequence<stdout_mt,StdErrThreaded>" };

// ---------------------------------------------------------------- streamed items
struct Probe
{
    int item;
};
inline std::ostream& operator<<(std::ostream& o, const Probe& p)
{
    if (Stmt* s = cur_stmt())
    {
        NoFault nf;
        s->probe_order.push_back(p.item);
    }
    return o << '#';
}

const char* const LITERALS[4] = { "lit", "", "a b", "{x}" };

inline std::string item_string(const Item& it)
{
    std::string s;
    for (int64_t k = 0; k < it.val % 24; k++)
        s += static_cast<char>('a' + (k * 7 + it.val) % 26);
    return s;
}

// a user type whose inserter reports failure: the statement's stream is in a failed state from
// here on (later insertions write nothing - for the reference stream just as for the real one)
struct FailBit
{
};
inline std::ostream& operator<<(std::ostream& o, const FailBit&)
{
    o << "!";
    o.setstate(std::ios_base::failbit);
    return o;
}

// bytes a careless formatter or transport would mangle: NUL, newline, the record delimiters
inline std::string odd_string(const Item& it)
{
    static const char raw[] = "a\0b\n{x}|%s\r\t\x7f";
    std::string s(raw, sizeof raw - 1);
    return s.substr(static_cast<size_t>(it.val) % 4);
}

// a record longer than any usual buffer / PIPE_BUF
inline std::string big_string(const Item& it)
{
    std::string s(static_cast<size_t>(3000 + (it.val % 10) * 2000), 'x'); // 3 .. 21 kB
    for (size_t i = 0; i < s.size(); i += 97)
        s[i] = static_cast<char>('a' + (i / 97 + static_cast<size_t>(it.val)) % 26);
    return s;
}

// reference rendering: what `ostream << item` writes
inline const char* line_end_text(int v)
{
    static const char* const t[] = { "\n", "\r\n", "tail\n", "\r", "a\n\n", " \n" };
    return t[static_cast<unsigned>(v) % 6];
}

inline void render_into(std::ostream& o, const Item& it);
inline std::string render(const Item& it)
{
    std::ostringstream o;
    render_into(o, it);
    return o.str();
}
inline void render_into(std::ostream& o, const Item& it)
{
    switch (it.kind)
    {
    case 's':
        o << item_string(it);
        break;
    case 'B':
        o << big_string(it);
        break;
    case 'k':
        o << LITERALS[it.val & 3];
        break;
    case 'h':
        o << static_cast<char>('A' + it.val % 26);
        break;
    case 'i':
        o << static_cast<int>(it.val - 500);
        break;
    case 'u':
        o << static_cast<unsigned long>(it.val) * 1000003UL;
        break;
    case 'l':
        o << static_cast<long long>(it.val) * -900000000001LL;
        break;
    case 'd':
        o << static_cast<double>(it.val) / 8.0;
        break;
    case 'b':
        o << static_cast<bool>(it.val & 1);
        break;
    case 'p':
        o << '#';
        break;
    case 'c':
    case 'g':
        o << ("L" + std::to_string(it.val)); // the callable returns a finished string
        break;
    case 'f':
        o << LITERALS[it.val & 3];
        break;
    case 'n':
    case 'm':
    case 'a':
        o << std::string("cl");
        break;
    case 'r':
    case 'y':
        o << ("L" + std::to_string(it.val)); // the callable returns a finished string
        break;
    case 'z':
        o << odd_string(it);
        break;
    case 'H':
        o << std::hex;
        break;
    case 'A':
        o << std::boolalpha;
        break;
    case 'W':
        o << std::setw(7);
        break;
    case 'N':
        o << ("N" + std::to_string(it.val));
        break;
    case 'Q':
        o << (it.val % 3 == 0 ? "eth0" : it.val % 3 == 1 ? "q" : "");
        break;
    case 'E':
        o << line_end_text(it.val);
        break;
    case 'F':
        o << FailBit{};
        break;
    case 'x':
        break;
    default:
        break;
    }
}

inline std::vector<Item> parse_items(const std::string& s)
{
    std::vector<Item> v;
    size_t i = 0;
    if (!s.empty() && s[0] == '!')
        i = 1;
    if (i < s.size() && s[i] == ',')
        ++i;
    while (i < s.size())
    {
        Item it;
        it.kind = s[i++];
        int64_t n = 0;
        bool any = false;
        while (i < s.size() && isdigit(static_cast<unsigned char>(s[i])))
        {
            n = n * 10 + (s[i++] - '0');
            any = true;
        }
        (void)any;
        it.val = n;
        if (i < s.size() && s[i] == ',')
            ++i;
        if (strchr("sBkhiuldbpcgfxnmzryaHAWNQFE", it.kind))
            v.push_back(it);
        if (v.size() >= 8)
            break;
    }
    return v;
}

struct Lazy
{
    int stmt, item;
    int64_t val;
    bool throws;
    std::string operator()() const
    {
        yield(YK_CALLABLE);
        Stmt& s = g.stmts[static_cast<size_t>(stmt)];
        {
            NoFault nf;
            int me = Scheduler::self_id();
            bool in_bracket = me >= 0 && g.tctx[me].cur_stmt == stmt && g.tctx[me].cur_item == item;
            s.calls.push_back(Stmt::Call{ item, in_bracket });
        }
        if (throws)
        {
            f_callable_throw++;
            throw CallableThrow();
        }
        return "L" + std::to_string(val);
    }
};
template <typename... None>
inline std::string stateless_callable_body(None...)
{
    yield(YK_CALLABLE);
    int me = Scheduler::self_id();
    if (me >= 0)
    {
        int st = g.tctx[me].cur_stmt, item = g.tctx[me].cur_item;
        if (st >= 0 && st < static_cast<int>(g.stmts.size()))
        {
            NoFault nf;
            g.stmts[static_cast<size_t>(st)].calls.push_back(Stmt::Call{ item, item >= 0 });
        }
    }
    return "cl";
}
inline std::string plain_function()
{
    return stateless_callable_body();
}

// A lazily evaluated callable that logs a statement of its own while it runs (same thread): the
// inner statement is complete before the outer one continues.  The engine installs the hook.
inline void (*g_nested_hook)(int parent_stmt, int item) = nullptr;
struct Nested
{
    int stmt, item;
    int64_t val;
    std::string operator()() const
    {
        yield(YK_CALLABLE);
        {
            NoFault nf;
            int me = Scheduler::self_id();
            bool in_bracket = me >= 0 && g.tctx[me].cur_stmt == stmt && g.tctx[me].cur_item == item;
            g.stmts[static_cast<size_t>(stmt)].calls.push_back(Stmt::Call{ item, in_bracket });
        }
        if (g_nested_hook)
            g_nested_hook(stmt, item);
        return "N" + std::to_string(val);
    }
};

struct LazyLit
{
    int stmt, item;
    int64_t val;
    const char* operator()() const
    {
        yield(YK_CALLABLE);
        Stmt& s = g.stmts[static_cast<size_t>(stmt)];
        NoFault nf;
        int me = Scheduler::self_id();
        bool in_bracket = me >= 0 && g.tctx[me].cur_stmt == stmt && g.tctx[me].cur_item == item;
        s.calls.push_back(Stmt::Call{ item, in_bracket });
        return LITERALS[val & 3];
    }
};

// one insertion `stream << item` (works for lvalue streams and, via Move, for rvalue chains)
struct PutCtx
{
    int stmt;
    std::string id;
    Stmt& s()
    {
        return g.stmts[static_cast<size_t>(stmt)];
    }
    void begin(int k)
    {
        g.tctx[Scheduler::self_id()].cur_item = k;
    }
    void end(int k)
    {
        NoFault nf;
        g.tctx[Scheduler::self_id()].cur_item = -1;
        s().put_done.push_back(k);
    }
    void abort()
    {
        g.tctx[Scheduler::self_id()].cur_item = -1;
    }
};

// apply F to the typed value of an item
template <typename F>
decltype(auto) with_item(int stmt, int k, const Item& it, F&& f)
{
    switch (it.kind)
    {
    case 's':
    {
        std::string v;
        {
            NoFault nf;
            v = item_string(it);
        }
        return f(v);
    }
    case 'B':
    {
        std::string v;
        {
            NoFault nf;
            v = big_string(it);
        }
        return f(v);
    }
    case 'k':
        return f(LITERALS[it.val & 3]);
    case 'h':
        return f(static_cast<char>('A' + it.val % 26));
    case 'i':
        return f(static_cast<int>(it.val - 500));
    case 'u':
        return f(static_cast<unsigned long>(it.val) * 1000003UL);
    case 'l':
        return f(static_cast<long long>(it.val) * -900000000001LL);
    case 'd':
        return f(static_cast<double>(it.val) / 8.0);
    case 'b':
        return f(static_cast<bool>(it.val & 1));
    case 'p':
        return f(Probe{ k });
#if LS_HAVE_CALLABLE_OBJ
    case 'c':
        return f(Lazy{ stmt, k, it.val, false });
    case 'x':
        return f(Lazy{ stmt, k, it.val, true });
#endif
#if LS_HAVE_CALLABLE_FN
    case 'g':
        return f(std::function<std::string()>(Lazy{ stmt, k, it.val, false }));
#endif
#if LS_HAVE_CALLABLE_LIT
    case 'f':
        return f(LazyLit{ stmt, k, it.val });
#endif
#if LS_HAVE_CALLABLE_OBJ
    case 'n':
        return f([]() -> std::string { return stateless_callable_body(); }); // captureless lambda
    case 'm':
        return f(&plain_function); // plain function pointer
    case 'a':
        return f([](auto... none) -> std::string { return stateless_callable_body(none...); }); // generic lambda
    case 'r':
    {
        Lazy lz{ stmt, k, it.val, false };
        return f(std::ref(lz)); // std::reference_wrapper<Lazy> is callable too
    }
    case 'y':
        return f(std::bind(Lazy{ stmt, k, it.val, false })); // a bind expression
#endif
    case 'z':
    {
        std::string v;
        {
            NoFault nf;
            v = odd_string(it);
        }
        return f(v);
    }
    case 'E':
        if (it.val % 2)
            return f(std::string(line_end_text(it.val))); // text that ends in a line break belongs to the message as it is
        return f(line_end_text(it.val));
    case 'Q':
    {
        // a partially filled character buffer: only the text up to the terminator belongs to the message
        char buf[16] = { 0 };
        const char* src = it.val % 3 == 0 ? "eth0" : it.val % 3 == 1 ? "q" : "";
        std::strncpy(buf, src, sizeof buf - 1);
        buf[8] = 'Z'; // garbage behind the terminator
        return f(buf);
    }
    case 'F':
        return f(FailBit{});
    case 'H':
        return f(std::hex); // manipulators: their effect stays within this statement's text
    case 'A':
        return f(std::boolalpha);
    case 'W':
        return f(std::setw(7));
#if LS_HAVE_CALLABLE_OBJ
    case 'N':
        return f(Nested{ stmt, k, it.val }); // a callable that itself issues a log statement
#endif
    default:
        g.unavailable_item = it.kind;
        return f(0);
    }
}

// expression form: L::sev(tag) << a << b << c;  built as a recursion over rvalue streams so
// that the item list can come from the plan; temporaries die in the order of a real chain.
template <typename S>
void chain(S&& s, PutCtx& pc, const std::vector<Item>& items, size_t k)
{
    if (k == items.size())
        return;
    yield(YK_STEP);
    pc.begin(static_cast<int>(k));
    with_item(pc.stmt, static_cast<int>(k), items[k], [&](auto&& v) {
        auto r = std::move(s) << v;
        pc.end(static_cast<int>(k));
        chain(std::move(r), pc, items, k + 1);
    });
}

struct NamedBase
{
    virtual ~NamedBase() = default;
    virtual void put(PutCtx& pc, const Item& it, int k) = 0;
    virtual NamedBase* move_out() = 0; // `auto t = std::move(s);` - the new object continues the statement
};

// The entry points with and without a tag argument are used through separate helpers (they may be
// different overloads with different stream types).
template <typename L, int Sev, bool Tagged>
struct Make;
#define MAKE(N, FN)                                                                                \
    template <typename L>                                                                          \
    struct Make<L, N, true>                                                                        \
    {                                                                                              \
        static auto go(const char* tag)                                                            \
        {                                                                                          \
            return L::FN(tag);                                                                     \
        }                                                                                          \
    };                                                                                             \
    template <typename L>                                                                          \
    struct Make<L, N, false>                                                                       \
    {                                                                                              \
        static auto go(const char*)                                                                \
        {                                                                                          \
            return L::FN();                                                                        \
        }                                                                                          \
    };
MAKE(0, trace)
MAKE(1, debug)
MAKE(2, info)
MAKE(3, warn)
MAKE(4, error)
MAKE(5, fatal)

template <typename L, int Sev, bool Tagged>
struct Named : NamedBase
{
    decltype(Make<L, Sev, Tagged>::go(nullptr)) s;
    Named(const char* tag, const std::string& id) : s(Make<L, Sev, Tagged>::go(tag))
    {
        if (!id.empty())
            s << id;
    }
    Named(Named&& o) : s(std::move(o.s))
    {
    }
    void put(PutCtx& pc, const Item& it, int k) override
    {
        pc.begin(k);
        with_item(pc.stmt, k, it, [&](auto&& v) {
            s << v;
            pc.end(k);
        });
    }
    NamedBase* move_out() override
    {
        return new Named(std::move(*this));
    }
};

inline std::string stmt_id(int thread, int stmt)
{
    NoFault nf;
    return std::to_string(thread) + "." + std::to_string(stmt) + ":";
}

const char* const TAGS[4] = { nullptr, "net", "db core", "" };

struct LoggerEntry
{
    int expr, sink;
    bool has_tag;
    void (*reset)();
    void (*set_threshold)(int n, int level);
    void (*expr_stmt)(int sev, const char* tag, PutCtx&, const std::vector<Item>&);
    void (*bound_stmt)(int sev, const char* tag, PutCtx&, const std::vector<Item>&); // auto&& s = L::sev(tag) << first; s << ...;
    NamedBase* (*open_named)(int sev, const char* tag, const std::string& id);
    bool null_type[6]; // stream type is an empty, trivially destructible class
    bool live_type[6]; // stream type is neither
};

template <typename R, template <typename> class TF, typename SinkT>
struct Ops
{
    using L = nl::logger<R, SimFormatter, SinkT, TF>;
    static void reset()
    {
        S0<R>::set_severity(nl::severity_level::trace);
        S1<R>::set_severity(nl::severity_level::trace);
        S2<R>::set_severity(nl::severity_level::trace);
    }
    static void set_threshold(int n, int level)
    {
        auto lv = static_cast<nl::severity_level>(level);
        if (n == 0)
            S0<R>::set_severity(lv);
        else if (n == 1)
            S1<R>::set_severity(lv);
        else
            S2<R>::set_severity(lv);
    }
    template <int Sev>
    static void expr1(const char* tag, PutCtx& pc, const std::vector<Item>& items)
    {
        if (tag)
        {
            if (pc.id.empty())
                chain(Make<L, Sev, true>::go(tag), pc, items, 0);
            else
                chain(Make<L, Sev, true>::go(tag) << pc.id, pc, items, 0);
        }
        else
        {
            if (pc.id.empty())
                chain(Make<L, Sev, false>::go(tag), pc, items, 0);
            else
                chain(Make<L, Sev, false>::go(tag) << pc.id, pc, items, 0);
        }
    }
    // `auto&& s = L::info(tag) << first;` followed by further insertions into s: the stream returned
    // by the first insertion must live until the end of the scope
    template <int Sev, bool Tagged>
    static void bound1(const char* tag, PutCtx& pc, const std::vector<Item>& items)
    {
        auto&& s = Make<L, Sev, Tagged>::go(tag) << pc.id;
        for (size_t k = 0; k < items.size(); k++)
        {
            yield(YK_STEP);
            pc.begin(static_cast<int>(k));
            with_item(pc.stmt, static_cast<int>(k), items[k], [&](auto&& v) {
                s << v;
                pc.end(static_cast<int>(k));
            });
        }
    }
    template <int Sev>
    static void bound0(const char* tag, PutCtx& pc, const std::vector<Item>& items)
    {
        if (tag)
            bound1<Sev, true>(tag, pc, items);
        else
            bound1<Sev, false>(tag, pc, items);
    }
    static void bound_stmt(int sev, const char* tag, PutCtx& pc, const std::vector<Item>& items)
    {
        switch (sev)
        {
        case 0:
            return bound0<0>(tag, pc, items);
        case 1:
            return bound0<1>(tag, pc, items);
        case 2:
            return bound0<2>(tag, pc, items);
        case 3:
            return bound0<3>(tag, pc, items);
        case 4:
            return bound0<4>(tag, pc, items);
        default:
            return bound0<5>(tag, pc, items);
        }
    }
    static void expr_stmt(int sev, const char* tag, PutCtx& pc, const std::vector<Item>& items)
    {
        switch (sev)
        {
        case 0:
            return expr1<0>(tag, pc, items);
        case 1:
            return expr1<1>(tag, pc, items);
        case 2:
            return expr1<2>(tag, pc, items);
        case 3:
            return expr1<3>(tag, pc, items);
        case 4:
            return expr1<4>(tag, pc, items);
        default:
            return expr1<5>(tag, pc, items);
        }
    }
    static NamedBase* open_named(int sev, const char* tag, const std::string& id)
    {
        switch (sev)
        {
        case 0:
            return tag ? static_cast<NamedBase*>(new Named<L, 0, true>(tag, id)) : static_cast<NamedBase*>(new Named<L, 0, false>(tag, id));
        case 1:
            return tag ? static_cast<NamedBase*>(new Named<L, 1, true>(tag, id)) : static_cast<NamedBase*>(new Named<L, 1, false>(tag, id));
        case 2:
            return tag ? static_cast<NamedBase*>(new Named<L, 2, true>(tag, id)) : static_cast<NamedBase*>(new Named<L, 2, false>(tag, id));
        case 3:
            return tag ? static_cast<NamedBase*>(new Named<L, 3, true>(tag, id)) : static_cast<NamedBase*>(new Named<L, 3, false>(tag, id));
        case 4:
            return tag ? static_cast<NamedBase*>(new Named<L, 4, true>(tag, id)) : static_cast<NamedBase*>(new Named<L, 4, false>(tag, id));
        default:
            return tag ? static_cast<NamedBase*>(new Named<L, 5, true>(tag, id)) : static_cast<NamedBase*>(new Named<L, 5, false>(tag, id));
        }
    }
    template <int Sev>
    static constexpr bool is_null()
    {
        using T = decltype(Make<L, Sev, false>::go(nullptr));
        using U = decltype(Make<L, Sev, true>::go(nullptr));
        return std::is_empty<T>::value && std::is_trivially_destructible<T>::value && std::is_empty<U>::value &&
               std::is_trivially_destructible<U>::value;
    }
    template <int Sev>
    static constexpr bool is_live()
    {
        using T = decltype(Make<L, Sev, false>::go(nullptr));
        using U = decltype(Make<L, Sev, true>::go(nullptr));
        return !std::is_empty<T>::value && !std::is_trivially_destructible<T>::value && !std::is_empty<U>::value &&
               !std::is_trivially_destructible<U>::value;
    }
    static LoggerEntry entry(int expr, int sink)
    {
        return LoggerEntry{ expr,
                            sink,
                            nl::detail::has_attribute<nl::tag_attribute, R>::value,
                            &reset,
                            &set_threshold,
                            &expr_stmt,
                            &bound_stmt,
                            &open_named,
                            { is_null<0>(), is_null<1>(), is_null<2>(), is_null<3>(), is_null<4>(), is_null<5>() },
                            { is_live<0>(), is_live<1>(), is_live<2>(), is_live<3>(), is_live<4>(), is_live<5>() } };
    }
};

// A logger whose user-supplied filter keeps its threshold in a member set by its constructor.  A
// global object logs through it during static initialisation: the statement is below that
// threshold and must be rejected, which requires the logger's parts to be constructed by then.
inline int g_static_init_deliveries = 0;
inline int g_static_init_statements = 0;
template <typename R>
struct StatefulFilter
{
    typedef R record_type;
    int min_level;
    StatefulFilter() : min_level(static_cast<int>(nl::severity_level::fatal))
    {
    }
    bool filter(R& r) const
    {
        return static_cast<int>(static_cast<const R&>(r).severity()) >= min_level;
    }
};
template <typename R>
struct ProbeFormatter
{
    std::string format(R& r)
    {
        ++g_static_init_deliveries;
        return static_cast<const R&>(r).message();
    }
};
struct ProbeSink
{
    void sink(nl::severity_level, const std::string&)
    {
    }
};
using StaticRec = nl::record<nl::severity_attribute, nl::message_attribute, nl::timestamp_clock_attribute<std::chrono::steady_clock>>;
using StaticL = nl::logger<StaticRec, ProbeFormatter, ProbeSink, StatefulFilter>;
using StaticCfgFilter = nl::filter::severity_filter<StaticRec, 7>;
template <typename R>
using StaticCfgF = nl::filter::severity_filter<R, 7>;
// a logger behind the threshold that StaticInitProbe configured before main()
using StaticCfgL = nl::logger<StaticRec, ProbeFormatter, ProbeSink, StaticCfgF>;
struct StaticInitProbe
{
    StaticInitProbe()
    {
        // configuration done while globals are being constructed must stick
        StaticCfgFilter::set_severity(nl::severity_level::error);
        StaticL::error() << "logged while globals are still being constructed";
        StaticL::info() << "so is this";
        g_static_init_statements = 2;
    }
};
inline StaticInitProbe g_static_init_probe;

using Seq3 = nl::sink::sequence<RecSink<0>, RecSink<1>, RecSink<2>>;
using SeqMt = nl::sink::sequence<nl::sink::stdout_mt, nl::sink::StdErrThreaded>;


struct LoggerEntry;
void catalogue_part1(std::vector<LoggerEntry>& c);
void catalogue_part2(std::vector<LoggerEntry>& c);
void catalogue_part3(std::vector<LoggerEntry>& c);
} // namespace lsx
using namespace lsx;
