// logsim: see logsim_common.hpp for the shared types; this file holds the engine, the oracle,
// the link-time seams and main().  DESIGN.md section 3.1.
#include "logsim_common.hpp"

namespace lsim
{
Counter f_preempt("fault.sched.preempt");
Counter f_stall("fault.sched.stall");
Counter f_clockjump("fault.clock.jump");
Counter f_fork("fault.process.fork");
Counter p_flock("probe.statement_inside_flockfile_bracket");
Counter p_fork_handlers("probe.fork_handlers_run");

// Fork handlers the code under test registers (pthread_atfork).  The simulator does not really
// fork: a "fork" operation runs, in the calling thread and at a scheduler-chosen instant, what
// fork() runs in the parent - the prepare handlers in reverse order of registration, then the
// parent handlers in order - while the other threads keep logging.
struct ForkHandlers
{
    void (*prepare)();
    void (*parent)();
    void (*child)();
};
std::vector<ForkHandlers>& fork_handlers()
{
    static std::vector<ForkHandlers> v;
    return v;
}
Counter p_contended("probe.lock_contended");
Counter f_lock_timeout("fault.lock.timeout");
Counter f_eintr("fault.sem.eintr");
} // namespace lsim

namespace
{
const std::vector<LoggerEntry>& catalogue()
{
    // the entries are instantiated in three translation units (logsim_cat1..3.cpp); the order is
    // part of the plan format (knob logger=<index>)
    static const std::vector<LoggerEntry> c = [] {
        std::vector<LoggerEntry> v;
        catalogue_part1(v);
        catalogue_part2(v);
        catalogue_part3(v);
        return v;
    }();
    return c;
}
constexpr int FIRST_MT = 16;

// ---------------------------------------------------------------- ops of a plan
enum Kind
{
    K_STMT,   // expression form: thread sev tag, items in s
    K_OPEN,   // named form: thread slot sev tag, items in s
    K_PUT,    // thread slot n   (stream the next n items)
    K_CLOSE,  // thread slot
    K_THRESH, // thread n level
    K_JUMP,   // thread delta_ms (signed via offset)
    K_MOVE,   // thread slot: the named stream is move-constructed into a new object, the old one destroyed
    K_FORK,   // thread: the process forks here (simulated: the registered fork handlers run in this thread)
    K_N
};
const std::vector<OpSchema>& ls_schema()
{
    static const std::vector<OpSchema> s = {
        { "stmt", { "thread", "sev", "tag", "unwinding" } },     { "open", { "thread", "slot", "sev", "tag" } },
        { "put", { "thread", "slot", "n" } },       { "close", { "thread", "slot" } },
        { "set_threshold", { "thread", "n", "level" } }, { "clock_jump", { "thread", "delta" } },
        { "move_named", { "thread", "slot" } },
        { "fork", { "thread" } },
    };
    return s;
}

RacyBuf g_out, g_err;
std::streambuf* g_real_out = nullptr;
std::streambuf* g_real_err = nullptr;

std::string stmt_sig(const LoggerEntry& le, const Stmt& s)
{
    return std::string("sink=") + SINKNAME[le.sink] + " form=" + (s.form ? "named" : "expression");
}

// parse one device into records; returns false if it is not a concatenation of whole records
struct DevRec
{
    int sev;
    std::string tag, msg;
};
bool parse_device(const std::string& d, std::vector<DevRec>& out)
{
    size_t i = 0;
    while (i < d.size())
    {
        if (d[i] != '{')
            return false;
        size_t p1 = d.find('|', i);
        if (p1 == std::string::npos)
            return false;
        size_t p2 = d.find('|', p1 + 1);
        if (p2 == std::string::npos)
            return false;
        size_t p3 = d.find('|', p2 + 1);
        if (p3 == std::string::npos)
            return false;
        DevRec r;
        std::string sv = d.substr(i + 1, p1 - i - 1), ln = d.substr(p2 + 1, p3 - p2 - 1);
        if (sv.size() != 1 || !isdigit(static_cast<unsigned char>(sv[0])) || ln.empty() || ln.size() > 6)
            return false;
        for (char c : ln)
            if (!isdigit(static_cast<unsigned char>(c)))
                return false;
        r.sev = sv[0] - '0';
        r.tag = d.substr(p1 + 1, p2 - p1 - 1);
        size_t len = static_cast<size_t>(std::stoi(ln));
        if (p3 + 1 + len + 2 > d.size())
            return false;
        r.msg = d.substr(p3 + 1, len);
        if (d[p3 + 1 + len] != '}' || d[p3 + 2 + len] != '\n')
            return false;
        out.push_back(r);
        i = p3 + 3 + len;
    }
    return true;
}

Counter p_nested("probe.statement_issued_from_inside_a_streamed_callable");
Counter p_sink_nested("probe.statement_issued_by_a_sink_while_handling_a_record");
Counter p_bound("probe.statement_bound_to_a_reference_and_continued");
Counter p_moved_named("probe.named_stream_moved_to_a_new_object");

class LogEngine : public Engine
{
public:
    const char* name() const override
    {
        return "logsim";
    }
    uint64_t tag() const override
    {
        return 0x106517 + MIN;
    }
    const std::vector<OpSchema>& schema() const override
    {
        return ls_schema();
    }
    bool has_fault_arm(const std::string&) const override
    {
        return false;
    }
    bool threaded() const override
    {
        return true;
    }
    std::vector<std::string> real_components() const override
    {
        return { "nitro::log::logger, smart_stream/null_stream and every operator<<, actual_stream",
                 "severity_filter, and_filter, or_filter, not_filter, null_filter",
                 "sink::sequence, sink::stdout_mt, sink::StdErrThreaded",
                 "record attributes (severity, message, tag, timestamp_clock_attribute)",
                 "std::mutex / std::lock_guard, std::cout / std::cerr ostream layer" };
    }
    std::vector<std::string> stub_components() const override
    {
        return { "thread scheduling (seeded scheduler over parked real threads)",
                 "pthread_mutex_* / rwlock / spin lock / sched_yield / flockfile / static-initialisation guards (-Wl,--wrap, ownership modelled)",
                 "pthread_cond_*, sem_* (symbol interposition), pthread_atfork + fork as seen by the parent (handler table)",
                 "atomics variant only: the ThreadSanitizer runtime (atomics_rt.cpp: atomic operations yield to the scheduler)",
                 "streambuf behind std::cout/std::cerr (RacyBuf: chunked, buffered, not thread-safe)",
                 "Clock (SimClock)", "user-supplied Formatter, recording Sink, tracing wrapper around the filter expression",
                 "streamed callables (workload)" };
    }

    Plan generate(Rng& rng, const Config& cfg, int) override
    {
        Plan p;
        bool c09 = cfg.prop == "C09";
        int nlog = static_cast<int>(catalogue().size());
        int logger = c09 ? FIRST_MT + static_cast<int>(rng.below(static_cast<uint64_t>(nlog - FIRST_MT))) :
                           (rng.chance(1, 6) ? FIRST_MT + static_cast<int>(rng.below(static_cast<uint64_t>(nlog - FIRST_MT))) :
                                               static_cast<int>(rng.below(FIRST_MT)));
        p.knobs.emplace_back("min", MIN);
#ifdef LOGSIM_ATOMICS
        p.knobs.emplace_back("atomics", 1);
#endif
        p.knobs.emplace_back("logger", logger);
        int nthreads = c09 ? rng.range(2, 4) : rng.range(1, 4);
        bool many = c09 && rng.chance(1, 600); // a crowd: more threads than any small counter can hold
        if (many)
            nthreads = rng.range(258, 300);
        p.knobs.emplace_back("threads", nthreads);
        p.knobs.emplace_back("stall_first_writer", many);
        int strategy = (many || rng.chance(1, 2)) ? 1 : 0;
        p.knobs.emplace_back("strategy", strategy);
        p.knobs.emplace_back("sink_logs", !c09 && rng.chance(1, 4));
        static const unsigned SW[] = { 1, 2, 4, 8, 12, 16 };
        p.knobs.emplace_back("switch16", SW[rng.below(6)]);
        p.knobs.emplace_back("pct_d", rng.range(0, 3));
        p.knobs.emplace_back("sched_seed", static_cast<int64_t>(rng.next() >> 16));
        p.knobs.emplace_back("alloc_yield", rng.chance(1, 3));
#ifdef LOGSIM_ATOMICS
        p.knobs.emplace_back("atomic_stall_at", rng.chance(2, 3) ? static_cast<int64_t>(rng.below(rng.chance(1, 2) ? 60 : 600)) : -1);
        p.knobs.emplace_back("atomic_stall_len", static_cast<int64_t>(rng.chance(1, 2) ? rng.range(5, 80) : rng.range(80, 3000)));
#endif
        p.knobs.emplace_back("lock_timeout8", rng.chance(1, 2) ? 0 : rng.range(1, 4));
        p.knobs.emplace_back("eintr8", rng.chance(1, 2) ? 0 : rng.range(1, 3));
        // stream knobs
        static const int BUF[] = { 0, 0, 1, 3, 7, 16, 64, 300, 4096 };
        p.knobs.emplace_back("outbuf", BUF[rng.below(9)]);
        p.knobs.emplace_back("errbuf", BUF[rng.below(9)]);
        static const int CH[] = { 1, 2, 5, 16, 64, 1000 };
        p.knobs.emplace_back("chunk", CH[rng.below(6)]);
        // an I/O error on the device part-way through the run (liveness only is judged then)
        p.knobs.emplace_back("dev_fail_at", rng.chance(1, 12) ? rng.range(0, 400) : -1);
        p.knobs.emplace_back("tie", catalogue()[static_cast<size_t>(logger)].sink == SK_SEQ_MT ? 0 : static_cast<int>(rng.below(2)));
        // initial thresholds
        bool flips = rng.chance(2, 3);
        bool forks = rng.chance(1, 4);
        bool flocks = rng.chance(1, 4);
        for (int n = 0; n < 3; n++)
            p.knobs.emplace_back(n == 0 ? "th0" : n == 1 ? "th1" : "th2", static_cast<int64_t>(rng.below(6)));
        // item mix (swarm)
        bool lazy_ok = !rng.chance(1, 5), throw_ok = rng.chance(1, 3), probe_ok = !rng.chance(1, 4);
        bool big_ok = rng.chance(1, c09 ? 3 : 12);
        if (big_ok)
        {
            // keep long records cheap: no byte-sized buffers or chunks in these runs
            if (p.knob("chunk", 1) < 64)
                p.set_knob("chunk", rng.chance(1, 2) ? 64 : 1000);
            if (p.knob("outbuf", 0) > 0 && p.knob("outbuf", 0) < 64)
                p.set_knob("outbuf", 64);
            if (p.knob("errbuf", 0) > 0 && p.knob("errbuf", 0) < 64)
                p.set_knob("errbuf", 64);
        }
        int big_left = 2;
        auto gen_items = [&]() {
            std::string s;
            int n = rng.range(0, 6);
            if (rng.chance(1, 10))
            {
                s = "!"; // the statement does not stream its id; one in three streams nothing at all
                if (rng.chance(1, 3))
                    return s;
                s += ',';
            }
            for (int k = 0; k < n; k++)
            {
                static const char kinds[] = "sskhiuldbppccgfxnmzryaHAWNQFE";
                char kd = kinds[rng.below(sizeof kinds - 1)];
                if (strchr("cgfnmryaN", kd) && !lazy_ok)
                    kd = 's';
                if (kd == 'x' && !throw_ok)
                    kd = 'c';
                if (kd == 'p' && !probe_ok)
                    kd = 'i';
                if (kd == 's' && big_ok && big_left > 0 && rng.chance(1, 4))
                {
                    kd = 'B';
                    --big_left;
                }
                if (!s.empty() && s.back() != ',')
                    s += ',';
                s += kd;
                s += std::to_string(rng.below(kd == 's' ? 40 : 1000));
            }
            return s;
        };
        // per-thread programs, then merged in a PRNG-chosen global order (only the per-thread
        // order matters for execution; the scheduler decides the interleaving)
        std::vector<std::vector<Op>> prog(static_cast<size_t>(nthreads));
        for (int t = 0; t < nthreads; t++)
        {
            if (many)
            {
                // one short, always enabled statement per thread
                Op op;
                op.kind = K_STMT;
                op.a[0] = t;
                op.a[1] = 5;
                op.a[2] = 0;
                op.s = "i" + std::to_string(t);
                prog[static_cast<size_t>(t)].push_back(op);
                continue;
            }
            int nst = rng.range(1, 5);
            bool slot_open[2] = { false, false };
            int remaining[2] = { 0, 0 };
            for (int k = 0; k < nst; k++)
            {
                int sev = static_cast<int>(rng.below(6));
                int tg = static_cast<int>(rng.below(4));
                bool named = rng.chance(2, 5);
                if (!named)
                {
                    Op op;
                    op.kind = K_STMT;
                    op.a[0] = t;
                    op.a[1] = sev;
                    op.a[2] = tg;
                    op.a[3] = (rng.chance(1, 12) ? 1 : 0) + (rng.chance(1, 6) ? 2 : 0);
                    if (flocks && rng.chance(1, 3))
                        op.a[3] += rng.chance(1, 2) ? 4 : 8;
                    op.s = gen_items();
                    prog[static_cast<size_t>(t)].push_back(op);
                }
                else
                {
                    int slot = slot_open[0] ? 1 : 0;
                    if (slot_open[slot])
                    {
                        Op c;
                        c.kind = K_CLOSE;
                        c.a[0] = t;
                        c.a[1] = slot;
                        prog[static_cast<size_t>(t)].push_back(c);
                        slot_open[slot] = false;
                    }
                    Op op;
                    op.kind = K_OPEN;
                    op.a[0] = t;
                    op.a[1] = slot;
                    op.a[2] = sev;
                    op.a[3] = tg;
                    op.s = gen_items();
                    prog[static_cast<size_t>(t)].push_back(op);
                    slot_open[slot] = true;
                    remaining[slot] = static_cast<int>(parse_items(op.s).size());
                }
                // some puts / closes on open slots
                for (int sl = 0; sl < 2; sl++)
                {
                    if (!slot_open[sl])
                        continue;
                    while (remaining[sl] > 0 && rng.chance(2, 3))
                    {
                        Op pu;
                        pu.kind = K_PUT;
                        pu.a[0] = t;
                        pu.a[1] = sl;
                        pu.a[2] = rng.range(1, std::min(remaining[sl], 3));
                        remaining[sl] -= static_cast<int>(pu.a[2]);
                        prog[static_cast<size_t>(t)].push_back(pu);
                    }
                    if (rng.chance(1, 6))
                    {
                        Op mv;
                        mv.kind = K_MOVE;
                        mv.a[0] = t;
                        mv.a[1] = sl;
                        prog[static_cast<size_t>(t)].push_back(mv);
                    }
                    if (rng.chance(1, 2))
                    {
                        Op c;
                        c.kind = K_CLOSE;
                        c.a[0] = t;
                        c.a[1] = sl;
                        prog[static_cast<size_t>(t)].push_back(c);
                        slot_open[sl] = false;
                    }
                }
                if (flips && rng.chance(1, 3))
                {
                    Op th;
                    th.kind = K_THRESH;
                    th.a[0] = t;
                    th.a[1] = static_cast<int64_t>(rng.below(3));
                    th.a[2] = static_cast<int64_t>(rng.below(6));
                    prog[static_cast<size_t>(t)].push_back(th);
                }
                if (forks && rng.chance(1, 6))
                {
                    Op fk;
                    fk.kind = K_FORK;
                    fk.a[0] = t;
                    prog[static_cast<size_t>(t)].push_back(fk);
                }
                if (rng.chance(1, 10))
                {
                    Op j;
                    j.kind = K_JUMP;
                    j.a[0] = t;
                    j.a[1] = static_cast<int64_t>(rng.below(7200001)); // -1h .. +1h in ms, offset 3.6e6
                    prog[static_cast<size_t>(t)].push_back(j);
                }
            }
            // slots still open are closed by the executor at the end of the thread's program
        }
        std::vector<size_t> pos(static_cast<size_t>(nthreads), 0);
        for (;;)
        {
            std::vector<int> avail;
            for (int t = 0; t < nthreads; t++)
                if (pos[static_cast<size_t>(t)] < prog[static_cast<size_t>(t)].size())
                    avail.push_back(t);
            if (avail.empty())
                break;
            int t = avail[rng.below(avail.size())];
            p.ops.push_back(prog[static_cast<size_t>(t)][pos[static_cast<size_t>(t)]++]);
        }
        return p;
    }

    // ------------------------------------------------------------ execution
    static std::map<std::pair<int, int>, int> nested_children;
    static const LoggerEntry* current_entry;
    static void sink_hook(int parent)
    {
        int me = Scheduler::self_id();
        if (parent < 0 || parent >= static_cast<int>(g.stmts.size()) || me < 0 || !current_entry)
            return;
        int child = g.stmts[static_cast<size_t>(parent)].sink_child;
        if (child < 0)
            return;
        TCtx saved = g.tctx[me];
        Stmt& c = g.stmts[static_cast<size_t>(child)];
        if (c.begun)
            return; // the sink is (wrongly) called a second time: the sink counters report that
        {
            NoFault nf;
            p_sink_nested++;
            c.begun = true;
            c.begin_seq = g.seq++;
            c.th_states.push_back(std::array<int, 3>{ g.th[0], g.th[1], g.th[2] });
            ++g.inflight;
        }
        g.tctx[me].cur_stmt = child;
        g.tctx[me].cur_item = -1;
        PutCtx pc{ child, stmt_id(c.thread, child) };
        try
        {
            current_entry->expr_stmt(c.sev, TAGS[c.tag], pc, c.items);
        }
        catch (CallableThrow&)
        {
            c.threw = true;
        }
        c.ended = true;
        c.end_seq = g.seq++;
        --g.inflight;
        g.tctx[me] = saved;
    }
    static void nested_hook(int parent, int item)
    {
        auto it = nested_children.find(std::make_pair(parent, item));
        int me = Scheduler::self_id();
        if (it == nested_children.end() || me < 0 || !current_entry)
            return;
        int child = it->second;
        TCtx saved = g.tctx[me];
        Stmt& c = g.stmts[static_cast<size_t>(child)];
        if (c.begun)
            return; // the callable is (wrongly) running a second time: the call counters report that
        {
            NoFault nf;
            p_nested++;
            c.begun = true;
            c.begin_seq = g.seq++;
            c.th_states.push_back(std::array<int, 3>{ g.th[0], g.th[1], g.th[2] });
            ++g.inflight;
        }
        g.tctx[me].cur_stmt = child;
        g.tctx[me].cur_item = -1;
        PutCtx pc{ child, stmt_id(c.thread, child) };
        try
        {
            current_entry->expr_stmt(c.sev, TAGS[c.tag], pc, c.items);
        }
        catch (CallableThrow&)
        {
            c.threw = true;
        }
        c.ended = true;
        c.end_seq = g.seq++;
        --g.inflight;
        g.tctx[me] = saved;
    }
    struct ThreadProg
    {
        std::vector<int> ops; // indices into plan.ops
    };

    Outcome execute(const Plan& plan, const Config& cfg) override
    {
        Outcome out;
        Scheduler& sch = Scheduler::get();
        const auto& cat = catalogue();
        int logger = static_cast<int>(plan.knob("logger", 0) % static_cast<int64_t>(cat.size()));
        const LoggerEntry& le = cat[static_cast<size_t>(logger)];
        int nthreads = static_cast<int>(std::max<int64_t>(1, std::min<int64_t>(MAXT, plan.knob("threads", 1))));
        // ---- reset everything a run can observe
        g = G();
        g.logger = logger;
        fctl() = FaultCtl();
        if (!g_real_out)
        {
            g_real_out = std::cout.rdbuf();
            g_real_err = std::cerr.rdbuf();
            g_out.name = "std::cout";
            g_err.name = "std::cerr";
        }
        uint64_t sseed = static_cast<uint64_t>(plan.knob("sched_seed", 1));
        int outbuf = static_cast<int>(plan.knob("outbuf", 0)), errbuf = static_cast<int>(plan.knob("errbuf", 0));
        g_out.configure(static_cast<size_t>(outbuf), static_cast<unsigned>(plan.knob("chunk", 8)), sseed ^ 0x0117);
        g_err.configure(static_cast<size_t>(errbuf), static_cast<unsigned>(plan.knob("chunk", 8)), sseed ^ 0xE44);
        bool mt = le.sink >= SK_STDOUT_MT;
        if (plan.knob("dev_fail_at", -1) >= 0)
        {
            g_out.fail_at = g_err.fail_at = static_cast<size_t>(plan.knob("dev_fail_at", 0));
            if (mt)
                f_devfail++;
        }
        if (mt)
        {
            (outbuf == 0 ? f_unbuffered : outbuf <= 16 ? f_tinybuf : f_bigbuf)++;
            (errbuf == 0 ? f_unbuffered : errbuf <= 16 ? f_tinybuf : f_bigbuf)++;
        }
        std::cout.rdbuf(&g_out);
        std::cerr.rdbuf(&g_err);
        std::cout.clear();
        std::cerr.clear();
        std::cout.flags(std::ios_base::skipws | std::ios_base::dec);
        std::cerr.flags(std::ios_base::skipws | std::ios_base::dec | std::ios_base::unitbuf);
        std::cout.width(0);
        std::cerr.width(0);
        std::cerr.tie(plan.knob("tie", 1) ? &std::cout : nullptr);
        std::cout.tie(nullptr);
        SimClock::calls() = 0;
        for (auto& e : cat)
            e.reset();
        for (int n = 0; n < 3; n++)
        {
            g.th[n] = static_cast<int>(plan.knob(n == 0 ? "th0" : n == 1 ? "th1" : "th2", 0) % 6);
            le.set_threshold(n, g.th[n]);
        }
        // ---- statements and per-thread programs
        std::vector<ThreadProg> prog(static_cast<size_t>(nthreads));
        std::vector<int> stmt_of_op(plan.ops.size(), -1);
        for (size_t i = 0; i < plan.ops.size(); i++)
        {
            const Op& op = plan.ops[i];
            if (op.kind < 0 || op.kind >= K_N)
                continue;
            int t = static_cast<int>(((op.a[0] % nthreads) + nthreads) % nthreads);
            prog[static_cast<size_t>(t)].ops.push_back(static_cast<int>(i));
            if (op.kind == K_STMT || op.kind == K_OPEN)
            {
                Stmt s;
                s.op = static_cast<int>(i);
                s.thread = t;
                s.form = op.kind == K_OPEN;
                s.sev = static_cast<int>(op.a[s.form ? 2 : 1] % 6);
                s.tag = static_cast<int>(op.a[s.form ? 3 : 2] % 4);
                s.items = parse_items(op.s);
                s.noid = !op.s.empty() && op.s[0] == '!';
                stmt_of_op[i] = static_cast<int>(g.stmts.size());
                g.stmts.push_back(std::move(s));
            }
        }
        // a nested item ('N') owns a child statement that its callable issues while it runs
        nested_children.clear();
        for (size_t si = 0, n0 = g.stmts.size(); si < n0; si++)
            for (size_t k = 0; k < g.stmts[si].items.size(); k++)
                if (g.stmts[si].items[k].kind == 'N')
                {
                    Stmt c;
                    c.op = g.stmts[si].op;
                    c.thread = g.stmts[si].thread;
                    c.form = 0;
                    c.sev = static_cast<int>(g.stmts[si].items[k].val % 6);
                    c.tag = static_cast<int>((g.stmts[si].items[k].val / 6) % 4);
                    c.items = parse_items("i" + std::to_string(g.stmts[si].items[k].val % 1000) + ",k1");
                    nested_children[std::make_pair(static_cast<int>(si), static_cast<int>(k))] = static_cast<int>(g.stmts.size());
                    g.stmts.push_back(std::move(c));
                }
        // in runs with the knob set, sink member 0 answers every other planned statement's record
        // with a statement of its own through the same logger
        if (plan.knob("sink_logs", 0))
            for (size_t si = 0, n0 = g.stmts.size(); si < n0; si += 2)
            {
                if (g.stmts[si].is_sink_child || g.stmts[si].op < 0)
                    continue;
                Stmt c;
                c.op = g.stmts[si].op;
                c.thread = g.stmts[si].thread;
                c.form = 0;
                c.sev = static_cast<int>((static_cast<size_t>(g.stmts[si].sev) + 1 + si) % 6);
                c.tag = static_cast<int>(si % 4);
                c.items = parse_items("i" + std::to_string(700 + si % 200) + ",k1");
                c.is_sink_child = true;
                g.stmts[si].sink_child = static_cast<int>(g.stmts.size());
                g.stmts.push_back(std::move(c));
            }
        g.stmts.reserve(g.stmts.size() + 1); // no reallocation while threads hold references
        current_entry = &le;
        g_nested_hook = &LogEngine::nested_hook;
        g_sink_hook = &LogEngine::sink_hook;
        int strategy = static_cast<int>(plan.knob("strategy", 0) & 1);
        (strategy ? p_pct : p_uniform)++;
        Rng srng(sseed);
        std::vector<uint64_t> pct;
        std::vector<int> prios;
        {
            int d = static_cast<int>(plan.knob("pct_d", 0) % 4);
            uint64_t est = 40 + plan.ops.size() * 25;
            for (int k = 0; k < d; k++)
                pct.push_back(1 + srng.below(est));
            for (int t = 0; t < nthreads; t++)
                prios.push_back(static_cast<int>(srng.below(1000)));
        }
        bool replaying = !plan.choices.empty() || plan.knob("replay_default", 0);
        sch.begin_run(nthreads, &srng, replaying ? &plan.choices : nullptr, strategy,
                      static_cast<unsigned>(plan.knob("switch16", 4)), pct, prios);
        sch.stall_first_writer = plan.knob("stall_first_writer", 0) != 0;
        if (nthreads > 8)
            p_crowd++;
        sch.alloc_yield = plan.knob("alloc_yield", 0) != 0;
        sch.atomic_stall_at = plan.knob("atomic_stall_at", -1);
        sch.atomic_stall_len = plan.knob("atomic_stall_len", 0);
        sch.atomic_ops = 0;
        sch.timeout_num = static_cast<unsigned>(plan.knob("lock_timeout8", 0) % 8);
        sch.timeout_state = sseed ^ 0x71AE;
        sch.eintr_num = static_cast<unsigned>(plan.knob("eintr8", 0) % 8);
        sch.clock_state = sseed ^ 0xC10C;

        auto th_snapshot = [&] { return std::array<int, 3>{ g.th[0], g.th[1], g.th[2] }; };
        auto begin_stmt = [&](int si) {
            Stmt& s = g.stmts[static_cast<size_t>(si)];
            NoFault nf;
            s.begun = true;
            s.begin_seq = g.seq++;
            s.th_states.push_back(th_snapshot());
            if (++g.inflight >= 2)
            {
                bool multi = false;
                for (auto& o : g.stmts)
                    if (o.begun && !o.ended && o.thread != s.thread)
                        multi = true;
                if (multi)
                    p_multi_inflight++;
            }
        };
        auto end_stmt = [&](int si) {
            Stmt& s = g.stmts[static_cast<size_t>(si)];
            s.ended = true;
            s.end_seq = g.seq++;
            --g.inflight;
        };

        for (int t = 0; t < nthreads; t++)
        {
            sch.t[t].body = [&, t] {
                NamedBase* slot[2] = { nullptr, nullptr };
                int slot_stmt[2] = { -1, -1 };
                size_t cursor[2] = { 0, 0 };
                TCtx& tc = g.tctx[t];
                auto close_slot = [&](int sl) {
                    if (!slot[sl])
                        return;
                    tc.cur_stmt = slot_stmt[sl];
                    try
                    {
                        FaultWindow w;
                        delete slot[sl];
                    }
                    catch (...)
                    {
                    }
                    slot[sl] = nullptr;
                    end_stmt(slot_stmt[sl]);
                    slot_stmt[sl] = -1;
                    tc.cur_stmt = -1;
                    sch.t[t].holds_interest = slot[0] || slot[1];
                };
                for (int oi : prog[static_cast<size_t>(t)].ops)
                {
                    if (g.stop)
                        break;
                    const Op& op = plan.ops[static_cast<size_t>(oi)];
                    yield(YK_STEP);
                    switch (op.kind)
                    {
                    case K_STMT:
                    {
                        int si = stmt_of_op[static_cast<size_t>(oi)];
                        Stmt& s = g.stmts[static_cast<size_t>(si)];
                        tc.cur_stmt = si;
                        begin_stmt(si);
                        sch.t[t].holds_interest = true;
                        PutCtx pc{ si, s.noid ? std::string() : stmt_id(s.thread, si) };
                        // the application brackets a multi-part report with the C stream's own lock
                        // and logs inside the bracket
                        FILE* bracket = (op.a[3] & 4) ? stdout : (op.a[3] & 8) ? stderr : nullptr;
                        if (bracket)
                        {
                            p_flock++;
                            flockfile(bracket);
                        }
                        if (op.a[3] & 1)
                        {
                            // a complete statement issued from a destructor while another exception
                            // is propagating (clean-up code that logs): it is a statement like any other
                            struct Unrelated
                            {
                            };
                            struct Guard
                            {
                                const LoggerEntry& le;
                                Stmt& s;
                                PutCtx& pc;
                                ~Guard()
                                {
                                    try
                                    {
                                        FaultWindow w;
                                        le.expr_stmt(s.sev, TAGS[s.tag], pc, s.items);
                                    }
                                    catch (CallableThrow&)
                                    {
                                        s.threw = true;
                                        pc.abort();
                                    }
                                }
                            };
                            p_unwinding++;
                            try
                            {
                                Guard guard{ le, s, pc };
                                throw Unrelated();
                            }
                            catch (Unrelated&)
                            {
                            }
                        }
                        else
                        {
                            try
                            {
                                FaultWindow w;
                                if ((op.a[3] & 2) && !s.noid)
                                {
                                    p_bound++;
                                    le.bound_stmt(s.sev, TAGS[s.tag], pc, s.items);
                                }
                                else
                                    le.expr_stmt(s.sev, TAGS[s.tag], pc, s.items);
                            }
                            catch (CallableThrow&)
                            {
                                s.threw = true;
                                pc.abort();
                            }
                        }
                        if (bracket)
                            funlockfile(bracket);
                        end_stmt(si);
                        tc.cur_stmt = -1;
                        sch.t[t].holds_interest = slot[0] || slot[1];
                        break;
                    }
                    case K_OPEN:
                    {
                        int sl = static_cast<int>(op.a[1] & 1);
                        close_slot(sl);
                        int si = stmt_of_op[static_cast<size_t>(oi)];
                        Stmt& s = g.stmts[static_cast<size_t>(si)];
                        tc.cur_stmt = si;
                        begin_stmt(si);
                        sch.t[t].holds_interest = true;
                        {
                            FaultWindow w;
                            slot[sl] = le.open_named(s.sev, TAGS[s.tag], s.noid ? std::string() : stmt_id(s.thread, si));
                        }
                        slot_stmt[sl] = si;
                        cursor[sl] = 0;
                        if (slot[0] && slot[1])
                            p_named_overlap++;
                        tc.cur_stmt = -1;
                        break;
                    }
                    case K_PUT:
                    {
                        int sl = static_cast<int>(op.a[1] & 1);
                        if (!slot[sl])
                            break;
                        int si = slot_stmt[sl];
                        Stmt& s = g.stmts[static_cast<size_t>(si)];
                        PutCtx pc{ si, std::string() };
                        int n = static_cast<int>(std::max<int64_t>(1, op.a[2] % 8));
                        for (int k = 0; k < n && cursor[sl] < s.items.size(); k++)
                        {
                            if (k)
                                yield(YK_STEP);
                            tc.cur_stmt = si;
                            size_t idx = cursor[sl]++;
                            try
                            {
                                FaultWindow w;
                                slot[sl]->put(pc, s.items[idx], static_cast<int>(idx));
                            }
                            catch (CallableThrow&)
                            {
                                s.threw = true;
                                pc.abort();
                            }
                            tc.cur_stmt = -1;
                        }
                        break;
                    }
                    case K_CLOSE:
                        close_slot(static_cast<int>(op.a[1] & 1));
                        break;
                    case K_MOVE:
                    {
                        int sl = static_cast<int>(op.a[1] & 1);
                        if (!slot[sl])
                            break;
                        tc.cur_stmt = slot_stmt[sl];
                        NamedBase* moved = nullptr;
                        {
                            FaultWindow w;
                            moved = slot[sl]->move_out();
                            delete slot[sl]; // the moved-from stream dies without a trace
                        }
                        slot[sl] = moved;
                        p_moved_named++;
                        tc.cur_stmt = -1;
                        break;
                    }
                    case K_THRESH:
                    {
                        int n = static_cast<int>(op.a[1] % 3), lv = static_cast<int>(op.a[2] % 6);
                        le.set_threshold(n, lv);
                        NoFault nf;
                        g.th[n] = lv;
                        g.seq++;
                        f_flip++;
                        bool any = false;
                        for (auto& s : g.stmts)
                            if (s.begun && !s.ended)
                            {
                                s.th_states.push_back(th_snapshot());
                                any = true;
                            }
                        if (any)
                            f_flip_inflight++;
                        break;
                    }
                    case K_FORK:
                    {
                        f_fork++;
                        sch.yield(YK_STEP);
                        auto& fh = fork_handlers();
                        for (size_t k = fh.size(); k-- > 0;)
                            if (fh[k].prepare)
                            {
                                p_fork_handlers++;
                                fh[k].prepare();
                            }
                        sch.yield(YK_STEP);
                        for (auto& e : fh)
                            if (e.parent)
                            {
                                p_fork_handlers++;
                                e.parent();
                            }
                        break;
                    }
                    case K_JUMP:
                    {
                        int64_t delta_ms = op.a[1] % 7200001 - 3600000;
                        sch.now_ns += delta_ms * 1000000;
                        f_clockjump++;
                        break;
                    }
                    default:
                        break;
                    }
                }
                close_slot(0);
                close_slot(1);
            };
        }
        sch.run_all();
        // ---- restore the real world
        std::cout.rdbuf(g_real_out);
        std::cerr.rdbuf(g_real_err);
        std::cerr.tie(&std::cout);
        fctl() = FaultCtl();
        c_switches += sch.switches;
        if (mt)
            f_chunk += g_out.chunks + g_err.chunks;

        // ---- oracle
        judge(plan, cfg, le, mt, sch);

        Fnv h = sch.trace;
        h.add(static_cast<uint64_t>(logger));
        for (auto& s : g.stmts)
        {
            h.add(static_cast<uint64_t>(s.fmts.size()));
            h.add(static_cast<uint64_t>(s.calls.size()));
            for (auto& f : s.fmts)
                h.adds(f.msg);
        }
        h.adds(g_out.contents_with_remainder());
        h.adds(g_err.contents_with_remainder());
        h.add(g.stop);
        if (g.stop)
            h.adds(g.v.cls);
        out.hash = h.h;
        out.choices = sch.taken;
        out.steps = sch.steps;
        out.sim_time_ns = sch.elapsed_ns;
        out.nontrivial = g.stmts.size() >= 2 && (sch.switches > 0 || nthreads == 1);
        out.violated = g.stop;
        out.v = g.v;
        return out;
    }

    // Which verdicts the filter expression may legitimately have returned for this statement.  The
    // thresholds may have changed while the statement was alive; a compound expression reads its
    // leaves one after the other, so each leaf may have seen any of the values its threshold had
    // in that time (the leaves are not read under one common snapshot).
    static void possible_verdicts(int expr, const Stmt& s, bool& any_true, bool& any_false)
    {
        std::set<int> v[3];
        for (auto& th : s.th_states)
            for (int n = 0; n < 3; n++)
                v[n].insert(th[static_cast<size_t>(n)]);
        for (int a : v[0])
            for (int b : v[1])
                for (int c : v[2])
                {
                    int th[3] = { a, b, c };
                    (ref_eval(expr, th, s.sev, s.tag) ? any_true : any_false) = true;
                }
    }

    void judge(const Plan& plan, const Config& cfg, const LoggerEntry& le, bool mt, Scheduler& sch)
    {
        (void)plan;
        NoFault nf;
        if (g_static_init_statements)
        {
            p_static_init++;
            if (cfg.prop == "C10" && LOGSIM_MIN <= 2)
            {
                // the program configured `error` before main(): an info statement is rejected and
                // must not evaluate its callable nor reach the formatter
                int calls = 0, before = g_static_init_deliveries;
                StaticCfgL::info() << "rejected by a threshold set during static initialisation " << [&calls]() -> std::string {
                    ++calls;
                    return "evaluated";
                };
                int delivered = g_static_init_deliveries - before;
                g_static_init_deliveries = before;
                if (calls || delivered)
                    return flag("C10/callable-called-when-rejected", "static-initialisation threshold-configured-early", -1,
                                "a statement below the threshold that was set during static initialisation " +
                                    std::string(calls ? "evaluated its callable" : "reached the formatter"));
            }
            if (StaticCfgFilter::min_severity() != nl::severity_level::error)
                return flag("C05/spurious", "static-initialisation threshold-configured-early", -1,
                            "a runtime threshold set during static initialisation was lost again (the filter accepts what the program configured away)");
            if (g_static_init_deliveries && LOGSIM_MIN <= 4)
                return flag("C05/spurious", "static-initialisation stateful-user-filter", -1,
                            std::to_string(g_static_init_deliveries) + " statement(s) issued during static initialisation were delivered although the logger's filter rejects them");
        }
        if (cfg.prop == "C09" && mt)
        {
            // End-to-end clause, judged against the statements themselves rather than against what
            // reached the sink: every statement that was emitted once must be found exactly once on
            // each device its sink writes to, recognisable by the identification it streamed first.
            // (Two statements that assemble their text in one shared buffer interleave their bytes
            // before any sink is involved; the clauses further down take the formatter's output as
            // given and could not see that.)
            std::string sk = std::string("sink=") + SINKNAME[le.sink];
            struct
            {
                RacyBuf* b;
                bool used;
                const char* nm;
            } devs[2] = { { &g_out, le.sink == SK_STDOUT_MT || le.sink == SK_SEQ_MT, "stdout" },
                          { &g_err, le.sink == SK_STDERR_MT || le.sink == SK_SEQ_MT, "stderr" } };
            for (auto& d : devs)
            {
                if (!d.used || d.b->raced || d.b->failed || d.b->fail_at != static_cast<size_t>(-1))
                    continue;
                std::vector<DevRec> recs;
                std::string content = d.b->contents_with_remainder();
                if (!parse_device(content, recs))
                    break; // reported by the device clause below
                for (size_t si = 0; si < g.stmts.size(); si++)
                {
                    const Stmt& s = g.stmts[si];
                    if (!s.begun || !s.ended || s.noid || s.threw || s.sev < MIN || s.fmts.size() > 1)
                        continue;
                    if (s.fmts.empty())
                    {
                        // never formatted: lost if every threshold state it lived through accepts it
                        bool any_true = false, any_false = false;
                        possible_verdicts(le.expr, s, any_true, any_false);
                        if (!any_true || any_false)
                            continue;
                    }
                    std::string id = stmt_id(s.thread, static_cast<int>(si));
                    int n = 0;
                    for (auto& r : recs)
                        if (r.msg.compare(0, id.size(), id) == 0)
                            ++n;
                    if (n == 0)
                        return flag("C09/lost", sk + " dev=" + d.nm + " end-to-end", s.op,
                                    "statement " + id + (s.fmts.empty() ? " is accepted by the filter but" : " was emitted once but") + " no record on the device begins with its identification");
                    if (n > 1)
                        return flag("C09/duplicate", sk + " dev=" + d.nm + " end-to-end", s.op,
                                    "statement " + id + " was emitted once but " + std::to_string(n) + " records on the device begin with its identification");
                }
            }
        }
        if (g.unavailable_item)
            return flag("C10/ill-formed", std::string("item=") + (g.unavailable_item == 'f' ? "callable-returning-const-char*" : g.unavailable_item == 'g' ? "std::function" : "function-object-or-lambda"),
                        -1, "streaming this kind of lazily evaluated callable into a log statement no longer compiles");
        // C10 type clause (a compile-time fact the simulation only reads)
        if (!LS_MIN_AFTER_HEADER)
            flag("C10/stream-type", "minimum-defined-after-another-log-header", -1,
                 "with NITRO_LOG_MIN_SEVERITY defined after <nitro/log/severity.hpp> but before <nitro/log/log.hpp>, statements below that minimum do not have the empty stream type (or those at it do)");
        for (int sev = 0; sev < 6; sev++)
        {
            if (sev < MIN && !le.null_type[sev])
                flag("C10/stream-type", std::string("sev=") + SEVNAME[sev] + " below-min",
                     -1, "stream type below the compile-time minimum is not an empty, trivially destructible class");
            if (sev >= MIN && !le.live_type[sev])
                flag("C10/stream-type", std::string("sev=") + SEVNAME[sev] + " at-or-above-min",
                     -1, "stream type at/above the compile-time minimum is an empty or trivially destructible class");
        }
        int members = le.sink == SK_SEQ3 ? 3 : le.sink == SK_REC ? 1 : 0;
        std::vector<std::vector<std::pair<uint32_t, int>>> ended_by_thread(MAXT), fmt_by_thread(MAXT);
        std::vector<std::string> expected_out, expected_err; // multiset of record texts (mt sinks)
        std::vector<std::vector<std::pair<uint32_t, std::string>>> exp_thread_order(MAXT);
        for (size_t si = 0; si < g.stmts.size() && !g.stop; si++)
        {
            Stmt& s = g.stmts[si];
            if (!s.begun)
                continue;
            std::string sig = stmt_sig(le, s);
            int nfmt = static_cast<int>(s.fmts.size());
            int ncall_items = 0;
            for (auto& it : s.items)
                if (strchr("cgfxnmryaN", it.kind))
                    ++ncall_items;
            (void)ncall_items;
            // expected message = id + renderings of completed insertions, in order
            std::ostringstream ref_stream; // one stream per statement: manipulators act on later items
            if (!s.noid)
                ref_stream << stmt_id(s.thread, static_cast<int>(si));
            if (s.noid && s.items.empty())
                p_nothing_streamed++;
            {
                std::vector<int> done = s.put_done;
                for (int k : done)
                    render_into(ref_stream, s.items[static_cast<size_t>(k)]);
            }
            std::string expect_msg = ref_stream.str();
            if (s.sev < MIN)
            {
                p_below_min++;
                if (s.gates)
                    return flag("C10/filter-called-below-min", sig, s.op, "filter evaluated for a statement below the compile-time minimum");
                if (s.records)
                    return flag("C10/record-built-below-min", sig, s.op, "record constructed for a statement below the compile-time minimum");
                if (!s.calls.empty())
                    return flag("C10/callable-called-when-rejected", sig + " below-min", s.op, "lazily evaluated callable was called below the compile-time minimum");
                if (nfmt || !s.sinks.empty())
                    return flag("C10/formatter-or-sink-called-when-rejected", sig + " below-min", s.op, "formatter/sink reached below the compile-time minimum");
                continue;
            }
            if (s.gates)
            {
                // the filter decides about THIS statement: the record it is shown carries the
                // statement's severity and tag
                std::string want_gate_tag = le.has_tag && TAGS[s.tag] ? TAGS[s.tag] : "";
                if (s.gate_sev != s.sev)
                    return flag("C05/severity", sig + " at-filter", s.op, "the filter was shown severity " + std::to_string(s.gate_sev) + " for a statement of severity " + std::to_string(s.sev));
                if (s.gate_tag != want_gate_tag)
                    return flag("C05/tag", sig + " at-filter", s.op, "the filter was shown tag '" + s.gate_tag + "' for a statement tagged '" + want_gate_tag + "'");
            }
            bool any_true = false, any_false = false;
            possible_verdicts(le.expr, s, any_true, any_false);
            bool ambiguous = any_true && any_false;
            if (ambiguous)
                f_flip_ambiguous++;
            bool enabled = any_true && !any_false;
            bool callable_threw = s.threw;
            // ---- deliveries
            if (nfmt > 1)
                return flag("C05/duplicate", sig, s.op, "record formatted " + std::to_string(nfmt) + " times");
            if (!ambiguous && !enabled)
            {
                p_rejected++;
                if (nfmt || !s.sinks.empty())
                    return flag("C10/formatter-or-sink-called-when-rejected", sig, s.op,
                                std::string("statement rejected by filter ") + EXPRNAME[le.expr] + " reached the formatter/sink");
                for (auto& it : s.items)
                    if (strchr("cgfxnmryaN", it.kind))
                    {
                        p_callable_rejected++;
                        break;
                    }
                if (!s.calls.empty())
                    return flag("C10/callable-called-when-rejected", sig, s.op, "lazily evaluated callable was called although the statement was rejected");
                continue;
            }
            if (!ambiguous && enabled && nfmt == 0 && !callable_threw)
                return flag("C05/lost", sig, s.op, std::string("enabled statement (filter ") + EXPRNAME[le.expr] + ") was never formatted");
            if (nfmt == 0)
            {
                if (!s.sinks.empty())
                    return flag("C05/spurious", sig, s.op, "sink reached without the formatter");
                // Thresholds changed while the statement was alive, so either verdict is accepted -
                // but it must be one verdict: a callable that was evaluated belongs to a record that
                // is then emitted ("rejected => never called", "emitted => called once when streamed").
                if (!s.calls.empty() && !callable_threw)
                    return flag("C10/callable-called-when-rejected", sig + " threshold-changed-in-flight", s.op,
                                "callables were evaluated but the record was dropped afterwards");
                // not delivered: callables at most once each
                std::map<int, int> cnt;
                for (auto& c : s.calls)
                    if (++cnt[c.item] > 1)
                        return flag("C10/callable-count", sig, s.op, "callable invoked more than once");
                continue;
            }
            p_emitted++;
            const Stmt::Fmt& f = s.fmts[0];
            if (f.msg.size() > 4096)
                p_big_record++;
            // (c) callables: exactly once each, at the point where they are streamed
            {
                std::map<int, int> cnt;
                for (auto& c : s.calls)
                {
                    ++cnt[c.item];
                    if (!c.in_bracket)
                        return flag("C10/callable-deferred", sig, s.op, "callable invoked outside the insertion that streamed it");
                }
                for (int k : s.put_done)
                    if (strchr("cgfnmryaN", s.items[static_cast<size_t>(k)].kind))
                    {
                        p_callable_emitted++;
                        if (cnt[k] != 1)
                            return flag("C10/callable-count", sig, s.op,
                                        "callable of an emitted record invoked " + std::to_string(cnt[k]) + " times");
                    }
                for (auto& kv : cnt)
                    if (kv.second > 1)
                        return flag("C10/callable-count", sig, s.op, "callable invoked more than once");
            }
            // (b) content
            if (f.sev != s.sev)
                return flag("C05/severity", sig, s.op, "record severity " + std::to_string(f.sev) + " statement " + std::to_string(s.sev));
            std::string want_tag = le.has_tag && TAGS[s.tag] ? TAGS[s.tag] : "";
            if (f.tag != want_tag)
                return flag("C05/tag", sig, s.op, "record tag '" + f.tag + "' statement tag '" + want_tag + "'");
            if (f.msg != expect_msg)
                return flag("C05/message", sig, s.op, "message '" + f.msg + "' expected '" + expect_msg + "'");
            if (f.thread != s.thread)
                return flag("C05/thread-order", sig, s.op, "record emitted by another thread than its statement");
            // insertion order of probe items
            {
                std::vector<int> want;
                for (int k : s.put_done)
                    if (s.items[static_cast<size_t>(k)].kind == 'p')
                        want.push_back(k);
                if (s.probe_order != want)
                    return flag("C05/message", sig + " probe-order", s.op, "items were not inserted in statement order");
            }
            // (c)/(d) sinks
            if (!mt)
            {
                if (le.sink == SK_SEQ3)
                    p_sequence++;
                if (static_cast<int>(s.sinks.size()) != members)
                    return flag(s.sinks.size() < static_cast<size_t>(members) ? (members > 1 ? "C05/sequence-count" : "C05/lost") :
                                                                                  (members > 1 ? "C05/sequence-count" : "C05/duplicate"),
                                sig, s.op, "sink calls " + std::to_string(s.sinks.size()) + " expected " + std::to_string(members));
                for (int m = 0; m < members; m++)
                {
                    const Stmt::Snk& k = s.sinks[static_cast<size_t>(m)];
                    if (k.member != m)
                        return flag("C05/sequence-order", sig, s.op, "sequence members not called in declaration order");
                    // (a member-0 sink that logs on its own puts that statement's events in between)
                    bool gap_ok = m > 0 && s.sink_child >= 0 && g.stmts[static_cast<size_t>(s.sink_child)].begun;
                    if (k.thread != f.thread ||
                        (gap_ok ? k.tseq < f.tseq + 1 + static_cast<uint32_t>(m) : k.tseq != f.tseq + 1 + static_cast<uint32_t>(m)))
                        return flag("C05/sequence-order", sig, s.op, "another event of this thread between formatter and sequence members");
                    if (k.text != f.out)
                        return flag("C05/message", sig + " sink-text", s.op, "sink received a different string than the formatter returned");
                    if (k.sevarg != s.sev)
                        return flag("C05/sink-severity", sig, s.op, "sink severity argument " + std::to_string(k.sevarg) + " statement " + std::to_string(s.sev));
                }
            }
            else
            {
                p_mt_records++;
                if (le.sink == SK_STDOUT_MT || le.sink == SK_SEQ_MT)
                    expected_out.push_back(f.out);
                if (le.sink == SK_STDERR_MT || le.sink == SK_SEQ_MT)
                    expected_err.push_back(f.out);
                if (!s.noid)
                    exp_thread_order[static_cast<size_t>(s.thread)].emplace_back(s.end_seq, f.out);
            }
            // (a statement issued by a sink lies inside its parent's delivery: no program order between them)
            if (!s.is_sink_child)
            {
                ended_by_thread[static_cast<size_t>(s.thread)].emplace_back(s.end_seq, static_cast<int>(si));
                fmt_by_thread[static_cast<size_t>(s.thread)].emplace_back(f.seq, static_cast<int>(si));
            }
        }
        if (g.stop)
            return;
        // (e) records of one thread arrive in the order in which its statements ended
        for (int t = 0; t < MAXT; t++)
        {
            auto a = ended_by_thread[static_cast<size_t>(t)], b = fmt_by_thread[static_cast<size_t>(t)];
            std::sort(a.begin(), a.end());
            std::sort(b.begin(), b.end());
            for (size_t k = 0; k < a.size(); k++)
                if (a[k].second != b[k].second)
                    return flag("C05/thread-order", std::string("sink=") + SINKNAME[le.sink], g.stmts[static_cast<size_t>(b[k].second)].op,
                                "records of thread " + std::to_string(t) + " were not delivered in program order");
        }
        if (sch.unlock_not_owner)
            return flag("C09/lock-leaked", std::string("sink=") + SINKNAME[le.sink] + " unlock-by-non-owner", -1, "a mutex was unlocked by a thread that does not own it");
        if (sch.lock_leaked())
            return flag("C09/lock-leaked", std::string("sink=") + SINKNAME[le.sink], -1, "a mutex is still owned at the end of the run");
        if (!mt)
            return;
        // ---- C09: the devices
        std::string sk = std::string("sink=") + SINKNAME[le.sink];
        struct Dev
        {
            RacyBuf* b;
            std::vector<std::string>* expect;
            const char* nm;
        } devs[2] = { { &g_out, &expected_out, "stdout" }, { &g_err, &expected_err, "stderr" } };
        for (auto& d : devs)
        {
            bool used = (d.b == &g_out) ? (le.sink == SK_STDOUT_MT || le.sink == SK_SEQ_MT) : (le.sink == SK_STDERR_MT || le.sink == SK_SEQ_MT);
            if (d.b->raced)
                return flag("C09/stream-race", sk + " dev=" + d.nm, -1, d.b->race_detail);
            if (d.b->failed || d.b->fail_at != static_cast<size_t>(-1))
                continue; // after an I/O error the stream discards records by specification: only
                          // liveness, mutual exclusion and lock release (checked above) are judged
            std::string content = d.b->contents_with_remainder();
            if (!used)
            {
                if (!content.empty())
                    return flag("C09/duplicate", sk + " dev=" + d.nm + " unexpected-device", -1, "bytes on a device this sink does not write to");
                continue;
            }
            std::vector<DevRec> recs;
            if (!parse_device(content, recs))
                return flag("C09/interleaved", sk + " dev=" + d.nm, -1, "device contents are not a concatenation of whole records: " + content.substr(0, 120));
            std::vector<std::string> got;
            for (auto& r : recs)
                got.push_back("{" + std::to_string(r.sev) + "|" + r.tag + "|" + std::to_string(r.msg.size()) + "|" + r.msg + "}\n");
            std::vector<std::string> a = got, b = *d.expect;
            std::sort(a.begin(), a.end());
            std::sort(b.begin(), b.end());
            if (a != b)
            {
                // lost or duplicated?
                std::vector<std::string> missing, extra;
                std::set_difference(b.begin(), b.end(), a.begin(), a.end(), std::back_inserter(missing));
                std::set_difference(a.begin(), a.end(), b.begin(), b.end(), std::back_inserter(extra));
                if (!missing.empty() && extra.empty())
                    return flag("C09/lost", sk + " dev=" + d.nm, -1, "record missing on the device: " + missing[0]);
                if (!extra.empty() && missing.empty())
                    return flag("C09/duplicate", sk + " dev=" + d.nm, -1, "record more often on the device than emitted: " + extra[0]);
                return flag("C09/interleaved", sk + " dev=" + d.nm + " altered", -1, "records on the device differ from the records emitted");
            }
            // per-thread program order on the device
            for (int t = 0; t < MAXT; t++)
            {
                size_t pos = 0;
                auto ends = exp_thread_order[static_cast<size_t>(t)];
                std::sort(ends.begin(), ends.end());
                std::vector<std::string> want;
                for (auto& e : ends)
                    want.push_back(e.second);
                // the records of thread t are recognised by their full text (ids make them unique)
                std::set<std::string> mine(want.begin(), want.end());
                std::vector<std::string> seen;
                for (auto& r : recs)
                {
                    std::string txt = "{" + std::to_string(r.sev) + "|" + r.tag + "|" + std::to_string(r.msg.size()) + "|" + r.msg + "}\n";
                    if (mine.count(txt))
                        seen.push_back(txt);
                }
                (void)pos;
                if (seen != want)
                    return flag("C09/thread-order", sk + " dev=" + d.nm, -1, "records of thread " + std::to_string(t) + " are not in program order on the device");
            }
        }
    }

    void simplify(const Op& op, std::vector<Op>& out) const override
    {
        if (op.kind == K_STMT || op.kind == K_OPEN)
        {
            // drop items one at a time
            std::vector<Item> items = parse_items(op.s);
            for (size_t k = 0; k < items.size(); k++)
            {
                Op c = op;
                c.s = (!op.s.empty() && op.s[0] == '!') ? "!" : "";
                for (size_t j = 0; j < items.size(); j++)
                    if (j != k)
                    {
                        if (!c.s.empty() && c.s.back() != ',')
                            c.s += ',';
                        c.s += items[j].kind;
                        c.s += std::to_string(items[j].val);
                    }
                out.push_back(c);
            }
        }
    }
};
std::map<std::pair<int, int>, int> LogEngine::nested_children;
const LoggerEntry* LogEngine::current_entry = nullptr;
} // namespace

static bool is_recursive(const pthread_mutex_t* m)
{
    return (m->__data.__kind & 127) == PTHREAD_MUTEX_RECURSIVE_NP;
}

// Function-local statics: the thread that runs the initialiser holds the guard, and any other
// thread that reaches the declaration blocks inside libstdc++ (a futex the scheduler does not see).
// A simulated thread may be preempted inside an initialiser (an allocation is a yield point), so
// the guard is modelled as a mutex of the simulation: a second thread then waits in the scheduler.
extern "C"
{
    int __real___cxa_guard_acquire(void*);
    void __real___cxa_guard_release(void*);
    void __real___cxa_guard_abort(void*);
}
static thread_local int t_guard_depth = 0;
static thread_local void* t_guards[8];
static thread_local bool t_in_guard_wrap = false; // the scheduler's own statics use the real guard
extern "C"
{
    int __wrap___cxa_guard_acquire(void* g)
    {
        // only initialisers reached from code under test (inside a fault window) are modelled
        if (t_in_guard_wrap || !fctl().window || t_guard_depth >= 8)
            return __real___cxa_guard_acquire(g);
        t_in_guard_wrap = true;
        Scheduler& s = Scheduler::get();
        if (!s.in_sim())
        {
            t_in_guard_wrap = false;
            return __real___cxa_guard_acquire(g);
        }
        s.lock(g);
        int r = __real___cxa_guard_acquire(g); // cannot block: simulated initialisers exclude each other above
        if (r == 0)
            s.unlock(g);
        else
            t_guards[t_guard_depth++] = g;
        t_in_guard_wrap = false;
        return r;
    }
    void __wrap___cxa_guard_release(void* g)
    {
        __real___cxa_guard_release(g);
        if (t_guard_depth > 0 && t_guards[t_guard_depth - 1] == g)
        {
            --t_guard_depth;
            t_in_guard_wrap = true;
            Scheduler::get().unlock(g);
            t_in_guard_wrap = false;
        }
    }
    void __wrap___cxa_guard_abort(void* g)
    {
        __real___cxa_guard_abort(g);
        if (t_guard_depth > 0 && t_guards[t_guard_depth - 1] == g)
        {
            --t_guard_depth;
            t_in_guard_wrap = true;
            Scheduler::get().unlock(g);
            t_in_guard_wrap = false;
        }
    }
    // the C streams' own locks (recursive), taken by the workload around some statements
    void __real_flockfile(FILE*);
    void __real_funlockfile(FILE*);
    int __real_ftrylockfile(FILE*);
    void __wrap_flockfile(FILE* f)
    {
        Scheduler& s = Scheduler::get();
        if (!s.in_sim())
            return __real_flockfile(f);
        s.lock(f, true);
    }
    void __wrap_funlockfile(FILE* f)
    {
        Scheduler& s = Scheduler::get();
        if (!s.in_sim())
            return __real_funlockfile(f);
        s.unlock(f);
    }
    int __wrap_ftrylockfile(FILE* f)
    {
        Scheduler& s = Scheduler::get();
        if (!s.in_sim())
            return __real_ftrylockfile(f);
        return s.trylock(f, true) ? -1 : 0;
    }
    int __wrap_pthread_mutex_lock(pthread_mutex_t* m)
    {
        Scheduler& s = Scheduler::get();
        if (!s.in_sim())
            return __real_pthread_mutex_lock(m);
        return s.lock(m, is_recursive(m));
    }
    int __wrap_pthread_mutex_unlock(pthread_mutex_t* m)
    {
        Scheduler& s = Scheduler::get();
        if (!s.in_sim())
            return __real_pthread_mutex_unlock(m);
        return s.unlock(m);
    }
    int __wrap_pthread_mutex_trylock(pthread_mutex_t* m)
    {
        Scheduler& s = Scheduler::get();
        if (!s.in_sim())
            return __real_pthread_mutex_trylock(m);
        return s.trylock(m, is_recursive(m));
    }
    int __wrap_pthread_mutex_timedlock(pthread_mutex_t* m, const struct timespec* ts)
    {
        Scheduler& s = Scheduler::get();
        if (!s.in_sim())
            return __real_pthread_mutex_timedlock(m, ts);
        return s.timedlock(m, is_recursive(m));
    }
    int __wrap_pthread_mutex_clocklock(pthread_mutex_t* m, clockid_t c, const struct timespec* ts)
    {
        Scheduler& s = Scheduler::get();
        if (!s.in_sim())
            return __real_pthread_mutex_clocklock(m, c, ts);
        return s.timedlock(m, is_recursive(m));
    }
    int __wrap_pthread_rwlock_rdlock(pthread_rwlock_t* m)
    {
        Scheduler& s = Scheduler::get();
        if (!s.in_sim())
            return __real_pthread_rwlock_rdlock(m);
        return s.rdlock(m, false);
    }
    int __wrap_pthread_rwlock_wrlock(pthread_rwlock_t* m)
    {
        Scheduler& s = Scheduler::get();
        if (!s.in_sim())
            return __real_pthread_rwlock_wrlock(m);
        return s.wrlock(m, false);
    }
    int __wrap_pthread_rwlock_tryrdlock(pthread_rwlock_t* m)
    {
        Scheduler& s = Scheduler::get();
        if (!s.in_sim())
            return __real_pthread_rwlock_tryrdlock(m);
        return s.rdlock(m, true);
    }
    int __wrap_pthread_rwlock_trywrlock(pthread_rwlock_t* m)
    {
        Scheduler& s = Scheduler::get();
        if (!s.in_sim())
            return __real_pthread_rwlock_trywrlock(m);
        return s.wrlock(m, true);
    }
    int __wrap_pthread_rwlock_unlock(pthread_rwlock_t* m)
    {
        Scheduler& s = Scheduler::get();
        if (!s.in_sim())
            return __real_pthread_rwlock_unlock(m);
        return s.rwunlock(m);
    }
    int __wrap_pthread_spin_lock(pthread_spinlock_t* m)
    {
        Scheduler& s = Scheduler::get();
        if (!s.in_sim())
            return __real_pthread_spin_lock(m);
        return s.lock(const_cast<const void*>(static_cast<volatile void*>(m)));
    }
    int __wrap_pthread_spin_trylock(pthread_spinlock_t* m)
    {
        Scheduler& s = Scheduler::get();
        if (!s.in_sim())
            return __real_pthread_spin_trylock(m);
        return s.trylock(const_cast<const void*>(static_cast<volatile void*>(m)));
    }
    int __wrap_pthread_spin_unlock(pthread_spinlock_t* m)
    {
        Scheduler& s = Scheduler::get();
        if (!s.in_sim())
            return __real_pthread_spin_unlock(m);
        return s.unlock(const_cast<const void*>(static_cast<volatile void*>(m)));
    }
    int __wrap_sched_yield(void)
    {
        Scheduler& s = Scheduler::get();
        if (!s.in_sim())
            return __real_sched_yield();
        s.spin_yield();
        return 0;
    }
}

// Condition variables are used through libstdc++.so, whose calls --wrap cannot redirect; these
// definitions in the executable interpose the libc symbols for the whole process instead.
#include <cerrno>
#include <dlfcn.h>
namespace
{
template <typename F>
F real_sym(const char* name)
{
    return reinterpret_cast<F>(dlsym(RTLD_NEXT, name));
}
} // namespace
extern "C"
{
    // defined here, so the archive member of libc_nonshared.a is not linked: registrations made by
    // the code under test land in the simulator's table
    int pthread_atfork(void (*prepare)(void), void (*parent)(void), void (*child)(void)) noexcept
    {
        NoFault nf;
        fork_handlers().push_back(ForkHandlers{ prepare, parent, child });
        return 0;
    }
    int pthread_cond_wait(pthread_cond_t* c, pthread_mutex_t* m)
    {
        static auto real = real_sym<int (*)(pthread_cond_t*, pthread_mutex_t*)>("pthread_cond_wait");
        Scheduler& s = Scheduler::get();
        if (!s.in_sim())
            return real(c, m);
        return s.cond_wait(c, m, false);
    }
    int pthread_cond_timedwait(pthread_cond_t* c, pthread_mutex_t* m, const struct timespec* ts)
    {
        static auto real = real_sym<int (*)(pthread_cond_t*, pthread_mutex_t*, const struct timespec*)>("pthread_cond_timedwait");
        Scheduler& s = Scheduler::get();
        if (!s.in_sim())
            return real(c, m, ts);
        return s.cond_wait(c, m, true);
    }
    int pthread_cond_clockwait(pthread_cond_t* c, pthread_mutex_t* m, clockid_t ck, const struct timespec* ts)
    {
        static auto real = real_sym<int (*)(pthread_cond_t*, pthread_mutex_t*, clockid_t, const struct timespec*)>("pthread_cond_clockwait");
        Scheduler& s = Scheduler::get();
        if (!s.in_sim())
            return real(c, m, ck, ts);
        return s.cond_wait(c, m, true);
    }
    int pthread_cond_signal(pthread_cond_t* c)
    {
        static auto real = real_sym<int (*)(pthread_cond_t*)>("pthread_cond_signal");
        Scheduler& s = Scheduler::get();
        if (!s.in_sim())
            return real(c);
        return s.cond_signal(c, false);
    }
    int pthread_cond_broadcast(pthread_cond_t* c)
    {
        static auto real = real_sym<int (*)(pthread_cond_t*)>("pthread_cond_broadcast");
        Scheduler& s = Scheduler::get();
        if (!s.in_sim())
            return real(c);
        return s.cond_signal(c, true);
    }
}

// POSIX semaphores, interposed by symbol like the condition variables
namespace lsim
{
int real_sem_wait(sem_t* s)
{
    static auto real = real_sym<int (*)(sem_t*)>("sem_wait");
    return real(s);
}
int real_sem_post(sem_t* s)
{
    static auto real = real_sym<int (*)(sem_t*)>("sem_post");
    return real(s);
}
} // namespace lsim
static int sem_initial(sem_t* s)
{
    static auto real = real_sym<int (*)(sem_t*, int*)>("sem_getvalue");
    int v = 0;
    real(s, &v);
    return v < 0 ? 0 : v;
}
extern "C"
{
    int sem_wait(sem_t* sm)
    {
        Scheduler& s = Scheduler::get();
        if (!s.in_sim())
            return lsim::real_sem_wait(sm);
        int err = 0;
        int r = s.sem_down(sm, sem_initial(sm), 0, &err);
        if (r)
            errno = err;
        return r;
    }
    int sem_trywait(sem_t* sm)
    {
        static auto real = real_sym<int (*)(sem_t*)>("sem_trywait");
        Scheduler& s = Scheduler::get();
        if (!s.in_sim())
            return real(sm);
        int err = 0;
        int r = s.sem_down(sm, sem_initial(sm), 1, &err);
        if (r)
            errno = err;
        return r;
    }
    int sem_timedwait(sem_t* sm, const struct timespec* ts)
    {
        static auto real = real_sym<int (*)(sem_t*, const struct timespec*)>("sem_timedwait");
        Scheduler& s = Scheduler::get();
        if (!s.in_sim())
            return real(sm, ts);
        int err = 0;
        int r = s.sem_down(sm, sem_initial(sm), 2, &err);
        if (r)
            errno = err;
        return r;
    }
    int sem_post(sem_t* sm)
    {
        Scheduler& s = Scheduler::get();
        if (!s.in_sim())
            return lsim::real_sem_post(sm);
        return s.sem_up(sm, sem_initial(sm));
    }
}

// "atomics" build variant: every atomic operation compiled into this binary calls this first
// (atomics_rt.cpp).  Only code running inside a fault window - the code under test and what it
// calls - is preempted; a thread that keeps doing atomic operations without anybody else getting
// to run in between (a spin loop) is made to step aside, as sched_yield() would.
Counter c_atomic_yields("sched.atomic_yield_points");
Counter f_atomic_stall("fault.sched.stall_at_atomic");
Counter p_spin_forced("probe.spinning_thread_preempted");
extern "C" void lsim_atomic_yield(void)
{
    static thread_local bool inside = false;
    if (inside || !fctl().window)
        return;
    inside = true;
    Scheduler& s = Scheduler::get();
    if (s.in_sim())
    {
        NoFault nf;
        auto& me = s.t[Scheduler::self_id()];
        c_atomic_yields++;
        if (static_cast<int64_t>(s.atomic_ops++) == s.atomic_stall_at)
        {
            // descheduled right before this operation: everybody else runs for a while
            f_atomic_stall++;
            uint64_t start = s.steps;
            while (s.steps - start < static_cast<uint64_t>(s.atomic_stall_len) && s.others_runnable(Scheduler::self_id()))
                s.spin_yield();
        }
        // a thread that has been made to step aside before and has not passed any other kind of
        // yield point since is a known spinner: it gets a short fuse, or a crowd of spinners would
        // cost 48 steps each before the lock holder runs again
        if (me.progress != me.a_last_progress)
        {
            me.a_last_progress = me.progress;
            me.a_fuse = 48;
            me.a_streak = 0;
        }
        if (s.switches == me.a_last_switches)
            ++me.a_streak;
        else
            me.a_streak = 0;
        if (me.a_streak >= me.a_fuse)
        {
            me.a_streak = 0;
            me.a_fuse = 3;
            p_spin_forced++;
            s.spin_yield();
        }
        else
            s.yield(YK_ATOMIC);
        me.a_last_switches = s.switches;
    }
    inside = false;
}

static void alloc_yield_hook()
{
    Scheduler& s = Scheduler::get();
    if (s.alloc_yield && s.in_sim())
        s.yield(YK_ALLOC);
}

int main(int argc, char** argv)
{
    alloc_hook() = &alloc_yield_hook;
    LogEngine e;
    return sim_main(argc, argv, e);
}
