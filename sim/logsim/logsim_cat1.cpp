// logsim logger catalogue, part 1 of 3 (split so that the heavy template instantiations compile in parallel)
#include "logsim_common.hpp"

namespace lsx
{
void catalogue_part1(std::vector<LoggerEntry>& c)
{
    c.push_back(Ops<RecTag, TF0, RecSink<0>>::entry(0, SK_REC));
    c.push_back(Ops<RecNoTag, TF0, Seq3>::entry(0, SK_SEQ3));
    c.push_back(Ops<RecNoTag, TF1, RecSink<0>>::entry(1, SK_REC));
    c.push_back(Ops<RecTag, TF1, Seq3>::entry(1, SK_SEQ3));
    c.push_back(Ops<RecTag, TF2, RecSink<0>>::entry(2, SK_REC));
    c.push_back(Ops<RecNoTag, TF2, Seq3>::entry(2, SK_SEQ3));
    c.push_back(Ops<RecNoTag, TF3, RecSink<0>>::entry(3, SK_REC));
    c.push_back(Ops<RecTag, TF3, Seq3>::entry(3, SK_SEQ3));
}
} // namespace lsx
