// The compile-time minimum is whatever NITRO_LOG_MIN_SEVERITY says where <nitro/log/log.hpp> is
// included - also when another nitro log header was seen before the macro was defined.
#include <memory>
#include <nitro/log/severity.hpp>
#define NITRO_LOG_MIN_SEVERITY warn
#include "probe_common.hpp"
#include <type_traits>
static_assert(std::is_empty<decltype(probe::L::debug())>::value && std::is_trivially_destructible<decltype(probe::L::debug())>::value,
              "a statement below the minimum must have the empty stream type");
static_assert(std::is_empty<decltype(probe::L::info())>::value, "a statement below the minimum must have the empty stream type");
static_assert(!std::is_empty<decltype(probe::L::warn())>::value, "a statement at the minimum must have the real stream type");
static_assert(!std::is_empty<decltype(probe::L::error())>::value, "a statement above the minimum must have the real stream type");
