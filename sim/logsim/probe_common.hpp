// shared by the logsim op-availability probes: a minimal user of the logging front end
#include <nitro/log/log.hpp>

#include <nitro/log/attribute/message.hpp>
#include <nitro/log/attribute/severity.hpp>
#include <nitro/log/attribute/timestamp.hpp>
#include <nitro/log/filter/severity_filter.hpp>

#include <functional>
#include <string>

namespace probe
{
using Rec = nitro::log::record<nitro::log::severity_attribute, nitro::log::message_attribute,
                               nitro::log::timestamp_attribute>;
template <typename R>
struct Fmt
{
    std::string format(R& r)
    {
        return r.message();
    }
};
struct Snk
{
    void sink(nitro::log::severity_level, const std::string&)
    {
    }
};
template <typename R>
using Flt = nitro::log::filter::severity_filter<R>;
using L = nitro::log::logger<Rec, Fmt, Snk, Flt>;
} // namespace probe
