// Seeded serialising scheduler over parked real threads (DESIGN.md 2.3), simulated
// pthread mutexes (attached with -Wl,--wrap), simulated clock, and the deliberately
// not-thread-safe stream buffer installed behind std::cout / std::cerr.
#pragma once

#include "../core/sim.hpp"

#include <chrono>
#include <iostream>
#include <pthread.h>
#include <semaphore.h>
#include <streambuf>
#include <thread>

namespace lsim
{
using namespace sim;

enum YieldKind
{
    YK_STEP = 1,   // between workload steps
    YK_LOCK,       // pthread_mutex_lock
    YK_UNLOCK,     // pthread_mutex_unlock
    YK_TRYLOCK,
    YK_STREAM,     // inside the stream buffer
    YK_CLOCK,      // Clock::now()
    YK_FILTER,     // Filter::filter
    YK_FORMAT,     // Formatter::format
    YK_SINK,       // Sink::sink
    YK_CALLABLE,   // a lazily evaluated callable runs
    YK_BLOCKED,    // waiting for a mutex
    YK_ALLOC,      // operator new (a thread can be preempted anywhere; this is a cheap extra seam)
    YK_ATOMIC,     // an atomic operation of the code under test ("atomics" build variant only)
    YK_DONE
};

constexpr int MAXT = 320; // ordinary runs use 1-4 simulated threads, a few C09 runs several hundred
constexpr uint64_t STEP_BUDGET = 2000000; // far above any legitimate run (< 50k); a livelock, not a long record

extern Counter f_preempt, f_stall, p_contended, f_clockjump, f_lock_timeout, f_eintr;

// POSIX semaphores of the code under test are simulated too (sem_* are interposed by symbol in
// logsim.cpp); the scheduler parks its own threads on the real ones
int real_sem_wait(sem_t* s);
int real_sem_post(sem_t* s);

struct Scheduler
{
    enum State
    {
        S_IDLE,
        S_RUNNABLE,
        S_BLOCKED,
        S_DONE
    };
    struct Th
    {
        sem_t go;
        std::thread th;
        State st = S_IDLE;
        int blocked_on = -1;
        std::function<void()> body;
        uint64_t last_run_step = 0;
        uint64_t progress = 0; // yield points other than atomic operations passed by this thread
        // spin detection of the atomics variant (per run, so that a run does not depend on its predecessors)
        uint64_t a_last_switches = 0, a_last_progress = 0;
        int a_streak = 0, a_fuse = 48;
        bool holds_interest = false; // has a statement in flight or a lock (for the stall probe)
        int prio = 0;
        int cond_waiting = -1;       // id of the condition variable this thread waits for
    };
    Th t[MAXT];
    sem_t main_sem;
    bool pool_started = false;
    int pool_size = 0;
    bool active = false;
    bool stall_first_writer = false; // run knob: the first thread inside the stream buffer loses its priority
    bool stalled_once = false;
    int nthreads = 0;
    int current = -1;
    uint64_t steps = 0;
    uint64_t switches = 0;
    Fnv trace;
    // decisions
    Rng* rng = nullptr;
    const std::vector<int>* replay = nullptr; // nullptr = generation mode
    size_t replay_pos = 0;
    std::vector<int> taken;
    int strategy = 0;          // 0 uniform, 1 PCT
    unsigned switch_num = 1;   // uniform: switch with probability switch_num/16
    std::vector<uint64_t> pct_points;
    // mutexes, numbered by first use
    std::vector<const void*> mtx_addr;
    std::vector<int> mtx_owner;
    std::vector<int> mtx_depth;   // recursion depth (recursive mutexes)
    std::vector<int> rw_readers;  // reader count when the object is used as a rwlock
    std::vector<std::vector<int>> rw_reader_ids;
    // simulated clock
    int64_t now_ns = 0;
    uint64_t elapsed_ns = 0;  // simulated time covered by this run (jumps excluded)
    uint64_t clock_state = 1; // per-run stream for the clock's advance
    int64_t tick()
    {
        clock_state = splitmix64(clock_state);
        int64_t d = 1000 + static_cast<int64_t>(clock_state % 1000000); // 1 us .. 1 ms per step
        now_ns += d;
        elapsed_ns += static_cast<uint64_t>(d);
        return now_ns;
    }
    bool unlock_not_owner = false;
    bool alloc_yield = false;      // run knob: allocations are yield points
    // "atomics" variant: the thread that performs the run's k-th atomic operation is descheduled
    // right before it for `atomic_stall_len` scheduler steps (fault sched.stall_at_atomic)
    int64_t atomic_stall_at = -1;
    int64_t atomic_stall_len = 0;
    uint64_t atomic_ops = 0;
    bool others_runnable(int me) const
    {
        for (int i = 0; i < nthreads; i++)
            if (i != me && t[i].st == S_RUNNABLE)
                return true;
        return false;
    }
    unsigned timeout_num = 0;      // run knob: a blocked timed lock gives up with probability n/8 per wait
    uint64_t timeout_state = 1;

    static Scheduler& get()
    {
        static Scheduler s;
        return s;
    }

    static int& self_id()
    {
        static thread_local int id = -1;
        return id;
    }

    // pool threads are created on demand (most processes never need more than 4)
    void start_pool(int n)
    {
        if (!pool_started)
        {
            pool_started = true;
            sem_init(&main_sem, 0, 0);
        }
        for (int i = pool_size; i < n && i < MAXT; i++)
        {
            sem_init(&t[i].go, 0, 0);
            t[i].th = std::thread([this, i] { pool_main(i); });
            t[i].th.detach();
            pool_size = i + 1;
        }
    }
    // called by the stream buffer when a thread enters it: with the knob set, the first writer of a
    // run is stalled (PCT priority below everybody), so that all other threads queue up behind it
    void maybe_stall_writer()
    {
        int me = self_id();
        if (!stall_first_writer || stalled_once || !active || me < 0 || me != current)
            return;
        stalled_once = true;
        // below everybody who blocks; threads that wait by spinning sink below this after a while
        // (every yield of a spinner lowers its priority), so the stall ends for them too
        t[me].prio = -static_cast<int>(steps) - 20000;
        f_stall++;
    }

    void pool_main(int i)
    {
        self_id() = i;
        for (;;)
        {
            real_sem_wait(&t[i].go);
            if (t[i].body)
            {
                t[i].body();
                t[i].body = nullptr;
            }
            t[i].st = S_DONE;
            trace.add(0xD0000 + static_cast<uint64_t>(i));
            hand_off(i, true);
        }
    }

    uint64_t kind_count[16] = { 0 };
    [[noreturn]] void die(const char* what)
    {
        std::string m = std::string("\nSIM-") + what + "\n";
        m += "yield kinds:";
        for (int k = 0; k < 16; k++)
            m += " " + std::to_string(kind_count[k]);
        int nrun = 0, nblk = 0, ndone = 0;
        for (int i = 0; i < nthreads; i++)
            (t[i].st == S_RUNNABLE ? nrun : t[i].st == S_BLOCKED ? nblk : ndone)++;
        m += " runnable=" + std::to_string(nrun) + " blocked=" + std::to_string(nblk) + " done=" + std::to_string(ndone) + " switches=" + std::to_string(switches) + "\n";
        ssize_t r = write(2, m.data(), m.size());
        (void)r;
        _exit(79);
    }

    int mutex_id(const void* m)
    {
        for (size_t i = 0; i < mtx_addr.size(); i++)
            if (mtx_addr[i] == m)
                return static_cast<int>(i);
        NoFault nf;
        mtx_addr.push_back(m);
        mtx_owner.push_back(-1);
        mtx_depth.push_back(0);
        rw_readers.push_back(0);
        rw_reader_ids.emplace_back();
        return static_cast<int>(mtx_addr.size() - 1);
    }

    // pick the thread that runs next; `me` is the thread giving up the baton (or -1 for main)
    int decide(int me)
    {
        int runnable[MAXT], n = 0;
        for (int i = 0; i < nthreads; i++)
            if (t[i].st == S_RUNNABLE)
                runnable[n++] = i;
        if (n == 0)
            return -1;
        bool me_ok = me >= 0 && t[me].st == S_RUNNABLE;
        int pick = -1;
        if (replay)
        {
            int c = replay_pos < replay->size() ? (*replay)[replay_pos] : -1;
            ++replay_pos;
            if (c >= 0)
            {
                // interpreted modulo the runnable set when the recorded thread cannot run
                if (c < nthreads && t[c].st == S_RUNNABLE)
                    pick = c;
                else
                    pick = runnable[static_cast<size_t>(c) % static_cast<size_t>(n)];
            }
            else if (me_ok)
                pick = me;
            else
            {
                // default policy when the current thread cannot continue: the next runnable thread
                // after it in cyclic order (always taking the lowest would let two spinning threads
                // hand the baton to each other for ever)
                pick = runnable[0];
                for (int k = 0; k < n; k++)
                    if (runnable[k] > me)
                    {
                        pick = runnable[k];
                        break;
                    }
            }
        }
        else if (n == 1)
        {
            pick = runnable[0];
        }
        else if (strategy == 1)
        {
            // PCT: highest priority runnable thread; at d change points the running thread drops
            for (uint64_t p : pct_points)
                if (p == steps && me_ok)
                    t[me].prio = -static_cast<int>(steps) - 1;
            pick = runnable[0];
            for (int k = 1; k < n; k++)
                if (t[runnable[k]].prio > t[pick].prio)
                    pick = runnable[k];
        }
        else
        {
            if (me_ok && !rng->chance(switch_num, 16))
                pick = me;
            else
                pick = runnable[rng->below(static_cast<uint64_t>(n))];
        }
        taken.push_back(pick);
        return pick;
    }

    // the baton holder schedules the next thread and parks itself (unless it continues)
    void hand_off(int me, bool finished)
    {
        NoFault nf; // the scheduler's own allocations are neither fault sites nor yield points
        if (++steps > STEP_BUDGET)
            die("STEPBUDGET: scheduler step budget exhausted");
        int next = decide(me);
        if (next < 0)
        {
            bool all_done = true;
            for (int i = 0; i < nthreads; i++)
                if (t[i].st != S_DONE)
                    all_done = false;
            if (!all_done)
                die("DEADLOCK: no runnable thread, some blocked");
            current = -1;
            real_sem_post(&main_sem);
            return; // finished thread goes back to its pool loop
        }
        // stall probe: somebody with work in flight has not run for a long time
        for (int i = 0; i < nthreads; i++)
            if (i != next && t[i].st != S_DONE && t[i].holds_interest && steps - t[i].last_run_step == 24)
                f_stall++;
        t[next].last_run_step = steps;
        trace.add(static_cast<uint64_t>(next));
        if (next == me && !finished)
            return;
        if (me >= 0 && !finished)
        {
            ++switches;
            f_preempt++;
        }
        current = next;
        real_sem_post(&t[next].go);
        if (!finished)
            real_sem_wait(&t[me].go);
    }

    void yield(int kind)
    {
        int me = self_id();
        if (!active || me < 0 || me != current)
            return;
        NoFault nf; // the scheduler's own allocations are neither fault sites nor yield points
        trace.add((static_cast<uint64_t>(kind) << 8) | static_cast<uint64_t>(me));
        ++kind_count[kind & 15];
        if (kind != YK_ATOMIC)
            ++t[me].progress;
        tick();
        hand_off(me, false);
    }

    // ---- mutex model
    void block_on(int me, int id)
    {
        t[me].st = S_BLOCKED;
        t[me].blocked_on = id;
        trace.add((static_cast<uint64_t>(YK_BLOCKED) << 8) | static_cast<uint64_t>(me));
        hand_off(me, false);
    }
    void wake_waiters(int id)
    {
        for (int i = 0; i < nthreads; i++)
            if (t[i].st == S_BLOCKED && t[i].blocked_on == id)
            {
                t[i].st = S_RUNNABLE;
                t[i].blocked_on = -1;
            }
    }
    // `recursive`: the mutex was created with PTHREAD_MUTEX_RECURSIVE (std::recursive_mutex)
    int lock(const void* m, bool recursive = false)
    {
        int me = self_id();
        int id = mutex_id(m);
        yield(YK_LOCK);
        bool contended = false;
        while (mtx_owner[static_cast<size_t>(id)] != -1)
        {
            if (mtx_owner[static_cast<size_t>(id)] == me)
            {
                if (recursive)
                {
                    ++mtx_depth[static_cast<size_t>(id)];
                    return 0;
                }
                die("DEADLOCK: relock of a non-recursive mutex by its owner");
            }
            if (!contended)
                p_contended++;
            contended = true;
            block_on(me, id);
        }
        mtx_owner[static_cast<size_t>(id)] = me;
        mtx_depth[static_cast<size_t>(id)] = 1;
        return 0;
    }
    // pthread_mutex_timedlock / clocklock: like lock(), but a wait may end with ETIMEDOUT - the
    // holder was stalled for longer than the caller was willing to wait (fault lock.timeout)
    int timedlock(const void* m, bool recursive)
    {
        int me = self_id();
        int id = mutex_id(m);
        yield(YK_LOCK);
        while (mtx_owner[static_cast<size_t>(id)] != -1)
        {
            if (mtx_owner[static_cast<size_t>(id)] == me)
            {
                if (recursive)
                {
                    ++mtx_depth[static_cast<size_t>(id)];
                    return 0;
                }
                die("DEADLOCK: relock of a non-recursive mutex by its owner");
            }
            p_contended++;
            if (timeout_num == 0)
            {
                block_on(me, id); // no timeouts in this run: an ordinary wait
                continue;
            }
            // the waiter stays schedulable: each time it gets to run while the lock is still held,
            // its patience may be over
            timeout_state = splitmix64(timeout_state);
            if (timeout_state % 8 < timeout_num)
            {
                f_lock_timeout++;
                return 110; // ETIMEDOUT
            }
            t[me].prio -= 1; // PCT: do not starve the holder
            yield(YK_LOCK);
        }
        mtx_owner[static_cast<size_t>(id)] = me;
        mtx_depth[static_cast<size_t>(id)] = 1;
        return 0;
    }
    int trylock(const void* m, bool recursive = false)
    {
        int me = self_id();
        int id = mutex_id(m);
        yield(YK_TRYLOCK);
        if (mtx_owner[static_cast<size_t>(id)] == me && recursive)
        {
            ++mtx_depth[static_cast<size_t>(id)];
            return 0;
        }
        if (mtx_owner[static_cast<size_t>(id)] != -1)
            return 16; // EBUSY
        mtx_owner[static_cast<size_t>(id)] = me;
        mtx_depth[static_cast<size_t>(id)] = 1;
        return 0;
    }
    int unlock(const void* m)
    {
        int me = self_id();
        int id = mutex_id(m);
        if (mtx_owner[static_cast<size_t>(id)] != me)
            unlock_not_owner = true;
        else if (--mtx_depth[static_cast<size_t>(id)] > 0)
            return 0; // still held recursively
        mtx_owner[static_cast<size_t>(id)] = -1;
        mtx_depth[static_cast<size_t>(id)] = 0;
        wake_waiters(id);
        yield(YK_UNLOCK);
        return 0;
    }
    // ---- reader/writer lock model (pthread_rwlock_*, std::shared_mutex)
    int rdlock(const void* m, bool try_only)
    {
        int me = self_id();
        int id = mutex_id(m);
        yield(try_only ? YK_TRYLOCK : YK_LOCK);
        while (mtx_owner[static_cast<size_t>(id)] != -1)
        {
            if (try_only)
                return 16;
            if (mtx_owner[static_cast<size_t>(id)] == me)
                die("DEADLOCK: read lock requested by the thread holding the write lock");
            p_contended++;
            block_on(me, id);
        }
        ++rw_readers[static_cast<size_t>(id)];
        NoFault nf;
        rw_reader_ids[static_cast<size_t>(id)].push_back(me);
        return 0;
    }
    int wrlock(const void* m, bool try_only)
    {
        int me = self_id();
        int id = mutex_id(m);
        yield(try_only ? YK_TRYLOCK : YK_LOCK);
        while (mtx_owner[static_cast<size_t>(id)] != -1 || rw_readers[static_cast<size_t>(id)] > 0)
        {
            if (try_only)
                return 16;
            auto& r = rw_reader_ids[static_cast<size_t>(id)];
            if (mtx_owner[static_cast<size_t>(id)] == me || std::find(r.begin(), r.end(), me) != r.end())
                die("DEADLOCK: write lock requested by a thread that already holds this lock");
            p_contended++;
            block_on(me, id);
        }
        mtx_owner[static_cast<size_t>(id)] = me;
        mtx_depth[static_cast<size_t>(id)] = 1;
        return 0;
    }
    int rwunlock(const void* m)
    {
        int me = self_id();
        int id = mutex_id(m);
        auto& r = rw_reader_ids[static_cast<size_t>(id)];
        auto it = std::find(r.begin(), r.end(), me);
        if (mtx_owner[static_cast<size_t>(id)] == me)
        {
            mtx_owner[static_cast<size_t>(id)] = -1;
            mtx_depth[static_cast<size_t>(id)] = 0;
        }
        else if (it != r.end())
        {
            r.erase(it);
            --rw_readers[static_cast<size_t>(id)];
        }
        else
            unlock_not_owner = true;
        wake_waiters(id);
        yield(YK_UNLOCK);
        return 0;
    }
    // ---- condition variables (pthread_cond_*; std::condition_variable lives in libstdc++.so, so
    // these are interposed by symbol, not with --wrap).  Waiters block on the condition's id + CONDBASE.
    static constexpr int CONDBASE = 100000;
    int cond_wait(const void* c, const void* m, bool timed)
    {
        int me = self_id();
        int cid = mutex_id(c), mid = mutex_id(m);
        // a thread can be preempted right before it starts to wait (the mutex is still held here:
        // harmless for a protocol that changes its predicate under the mutex, fatal for one that
        // does not - the classic lost wake-up)
        yield(YK_LOCK);
        // atomically release the mutex and start waiting
        int depth = mtx_depth[static_cast<size_t>(mid)];
        if (mtx_owner[static_cast<size_t>(mid)] != me)
            unlock_not_owner = true;
        mtx_owner[static_cast<size_t>(mid)] = -1;
        mtx_depth[static_cast<size_t>(mid)] = 0;
        wake_waiters(mid);
        int rc = 0;
        if (timed && timeout_num > 0)
        {
            // stays schedulable; each time it runs un-notified, its patience may be over
            t[me].cond_waiting = cid;
            for (;;)
            {
                yield(YK_LOCK);
                if (t[me].cond_waiting != cid)
                    break; // notified
                timeout_state = splitmix64(timeout_state);
                if (timeout_state % 8 < timeout_num)
                {
                    f_lock_timeout++;
                    t[me].cond_waiting = -1;
                    rc = 110; // ETIMEDOUT
                    break;
                }
                t[me].prio -= 1;
            }
        }
        else
        {
            t[me].cond_waiting = cid;
            block_on(me, CONDBASE + cid);
        }
        // re-acquire the mutex before returning
        while (mtx_owner[static_cast<size_t>(mid)] != -1)
        {
            p_contended++;
            block_on(me, mid);
        }
        mtx_owner[static_cast<size_t>(mid)] = me;
        mtx_depth[static_cast<size_t>(mid)] = depth > 0 ? depth : 1;
        return rc;
    }
    int cond_signal(const void* c, bool all)
    {
        int cid = mutex_id(c);
        for (int i = 0; i < nthreads; i++)
            if (t[i].cond_waiting == cid)
            {
                t[i].cond_waiting = -1;
                if (t[i].st == S_BLOCKED && t[i].blocked_on == CONDBASE + cid)
                {
                    t[i].st = S_RUNNABLE;
                    t[i].blocked_on = -1;
                }
                if (!all)
                    break;
            }
        yield(YK_UNLOCK);
        return 0;
    }

    // ---- POSIX semaphores (sem_wait / sem_trywait / sem_timedwait / sem_post)
    static constexpr int SEMBASE = 200000;
    std::vector<int> sem_value; // indexed like the mutex table; -1 = not yet seen as a semaphore
    unsigned eintr_num = 0;     // run knob: a blocked sem_wait is interrupted with probability n/8 per wait
    int sem_id(const void* sm, int initial)
    {
        int id = mutex_id(sm);
        NoFault nf;
        if (sem_value.size() <= static_cast<size_t>(id))
            sem_value.resize(static_cast<size_t>(id) + 1, -1);
        if (sem_value[static_cast<size_t>(id)] < 0)
            sem_value[static_cast<size_t>(id)] = initial;
        return id;
    }
    // returns 0, or -1 with *err set (EINTR 4, EAGAIN 11, ETIMEDOUT 110)
    int sem_down(const void* sm, int initial, int mode /*0 wait, 1 try, 2 timed*/, int* err)
    {
        int me = self_id();
        int id = sem_id(sm, initial);
        yield(mode == 1 ? YK_TRYLOCK : YK_LOCK);
        while (sem_value[static_cast<size_t>(id)] == 0)
        {
            if (mode == 1)
            {
                *err = 11;
                return -1;
            }
            p_contended++;
            timeout_state = splitmix64(timeout_state);
            if (eintr_num && timeout_state % 8 < eintr_num)
            {
                // a signal handler ran while the thread was waiting (legal at any time; callers retry)
                f_eintr++;
                yield(YK_LOCK);
                *err = 4;
                return -1;
            }
            if (mode == 2 && timeout_num && (timeout_state >> 8) % 8 < timeout_num)
            {
                f_lock_timeout++;
                yield(YK_LOCK);
                *err = 110;
                return -1;
            }
            block_on(me, SEMBASE + id);
        }
        --sem_value[static_cast<size_t>(id)];
        return 0;
    }
    int sem_up(const void* sm, int initial)
    {
        int id = sem_id(sm, initial);
        ++sem_value[static_cast<size_t>(id)];
        wake_waiters(SEMBASE + id);
        yield(YK_UNLOCK);
        return 0;
    }

    // std::this_thread::yield() inside a spin loop: somebody else must get to run
    void spin_yield()
    {
        NoFault nf;
        int me = self_id();
        trace.add((static_cast<uint64_t>(YK_STEP) << 8) | 0x80u | static_cast<uint64_t>(me));
        bool other = false;
        for (int i = 0; i < nthreads; i++)
            if (i != me && t[i].st == S_RUNNABLE)
                other = true;
        if (!other)
            return;
        t[me].prio = -static_cast<int>(steps) - 1; // PCT: the spinner drops below everybody
        t[me].st = S_BLOCKED;                        // not eligible for this one decision
        t[me].blocked_on = -2;
        ++steps;
        int next = decide(me);
        t[me].st = S_RUNNABLE;
        t[me].blocked_on = -1;
        if (next < 0 || next == me)
            return;
        trace.add(static_cast<uint64_t>(next));
        t[next].last_run_step = steps;
        ++switches;
        current = next;
        real_sem_post(&t[next].go);
        real_sem_wait(&t[me].go);
    }
    bool in_sim() const
    {
        return active && self_id() >= 0 && self_id() == current;
    }

    // ---- one run
    void begin_run(int n, Rng* r, const std::vector<int>* rep, int strat, unsigned sw,
                   const std::vector<uint64_t>& pct, const std::vector<int>& prios)
    {
        start_pool(n);
        nthreads = n;
        stalled_once = false;
        rng = r;
        replay = rep;
        replay_pos = 0;
        taken.clear();
        strategy = strat;
        switch_num = sw;
        pct_points = pct;
        steps = 0;
        switches = 0;
        for (auto& k : kind_count)
            k = 0;
        trace = Fnv();
        mtx_addr.clear();
        mtx_owner.clear();
        mtx_depth.clear();
        rw_readers.clear();
        rw_reader_ids.clear();
        sem_value.clear();
        now_ns = 1000000000;
        elapsed_ns = 0;
        unlock_not_owner = false;
        for (int i = 0; i < std::max(n, pool_size) && i < MAXT; i++)
        {
            t[i].st = i < n ? S_RUNNABLE : S_DONE;
            t[i].blocked_on = -1;
            t[i].last_run_step = 0;
            t[i].progress = 0;
            t[i].a_last_switches = t[i].a_last_progress = 0;
            t[i].a_streak = 0;
            t[i].a_fuse = 48;
            t[i].holds_interest = false;
            t[i].cond_waiting = -1;
            t[i].prio = i < static_cast<int>(prios.size()) ? prios[static_cast<size_t>(i)] : i;
        }
    }
    void run_all()
    {
        active = true;
        current = -1;
        int first = decide(-1);
        if (first >= 0)
        {
            ++steps;
            current = first;
            t[first].last_run_step = steps;
            trace.add(static_cast<uint64_t>(first));
            real_sem_post(&t[first].go);
            real_sem_wait(&main_sem);
        }
        active = false;
    }
    bool lock_leaked() const
    {
        for (int o : mtx_owner)
            if (o != -1)
                return true;
        for (int r : rw_readers)
            if (r > 0)
                return true;
        return false;
    }
};

inline void yield(int kind)
{
    Scheduler::get().yield(kind);
}

// ---------------------------------------------------------------- simulated clock
struct SimClock
{
    using rep = int64_t;
    using period = std::nano;
    using duration = std::chrono::nanoseconds;
    using time_point = std::chrono::time_point<SimClock, duration>;
    static constexpr bool is_steady = false;
    static uint64_t& calls()
    {
        static uint64_t c = 0;
        return c;
    }
    static time_point now()
    {
        Scheduler& s = Scheduler::get();
        s.yield(YK_CLOCK);
        ++calls();
        return time_point(duration(s.tick()));
    }
};

// ---------------------------------------------------------------- the racy stream buffer
// Behaves like an ordinary buffered, NOT thread-safe stream buffer: unsynchronised callers
// lose, duplicate or interleave bytes the way a real one does.  Concurrent entry is recorded.
class RacyBuf : public std::streambuf
{
public:
    std::string device;
    std::vector<char> area;
    int inside = 0;
    int inside_thread = -1;
    bool raced = false;
    std::string race_detail;
    unsigned chunk_max = 8;
    uint64_t chunk_state = 1;
    uint64_t chunks = 0;
    uint64_t flushes = 0;
    size_t fail_at = static_cast<size_t>(-1); // the device refuses everything beyond this many bytes
    bool failed = false;
    const char* name = "?";

    void configure(size_t bufsize, unsigned chunkmax, uint64_t seed)
    {
        NoFault nf;
        device.clear();
        area.assign(bufsize, 0);
        if (bufsize)
            setp(area.data(), area.data() + bufsize);
        else
            setp(nullptr, nullptr);
        inside = 0;
        inside_thread = -1;
        raced = false;
        race_detail.clear();
        chunk_max = chunkmax ? chunkmax : 1;
        chunk_state = splitmix64(seed);
        chunks = flushes = 0;
        fail_at = static_cast<size_t>(-1);
        failed = false;
    }
    std::string contents_with_remainder() const
    {
        std::string s = device;
        if (pbase() && pptr() > pbase())
            s.append(pbase(), static_cast<size_t>(pptr() - pbase()));
        return s;
    }

protected:
    struct Enter
    {
        RacyBuf& b;
        explicit Enter(RacyBuf& bb) : b(bb)
        {
            int me = Scheduler::self_id();
            if (b.inside > 0 && b.inside_thread != me && !b.raced)
            {
                b.raced = true;
                NoFault nf;
                b.race_detail = std::string(b.name) + ": thread " + std::to_string(me) +
                                " entered the stream buffer while thread " +
                                std::to_string(b.inside_thread) + " was inside";
            }
            if (b.inside++ == 0)
                b.inside_thread = me;
            Scheduler::get().maybe_stall_writer();
        }
        ~Enter()
        {
            --b.inside;
        }
    };
    size_t next_chunk()
    {
        // chunk sizes come from a per-run stream derived from the run seed: deterministic
        chunk_state = splitmix64(chunk_state);
        ++chunks;
        return 1 + static_cast<size_t>(chunk_state % chunk_max);
    }
    void device_write(const char* p, size_t n)
    {
        while (n)
        {
            size_t c = std::min(n, next_chunk());
            if (failed || device.size() + c > fail_at)
            {
                failed = true; // an I/O error: the ostream above turns this into badbit
                return;
            }
            {
                NoFault nf;
                device.append(p, c);
            }
            p += c;
            n -= c;
            yield(YK_STREAM);
        }
    }
    void flush_area()
    {
        if (!pbase())
            return;
        // read the fill level, yield, write that many bytes, yield, reset the put pointer
        size_t n = static_cast<size_t>(pptr() - pbase());
        ++flushes;
        yield(YK_STREAM);
        device_write(pbase(), n);
        yield(YK_STREAM);
        setp(area.data(), area.data() + area.size());
    }
    std::streamsize xsputn(const char* s, std::streamsize count) override
    {
        Enter e(*this);
        size_t n = static_cast<size_t>(count);
        if (!pbase())
        {
            device_write(s, n);
            return failed ? 0 : count;
        }
        while (n)
        {
            size_t space = static_cast<size_t>(epptr() - pptr());
            if (space == 0)
            {
                flush_area();
                continue;
            }
            size_t c = std::min(std::min(n, space), next_chunk());
            char* dst = pptr();
            yield(YK_STREAM); // a non-thread-safe buffer reads its put pointer, then copies
            memcpy(dst, s, c);
            setp(pbase(), epptr());
            pbump(static_cast<int>(dst + c - pbase()));
            s += c;
            n -= c;
            if (failed)
                return 0;
        }
        return count;
    }
    int_type overflow(int_type ch) override
    {
        Enter e(*this);
        if (pbase())
            flush_area();
        if (!traits_type::eq_int_type(ch, traits_type::eof()))
        {
            char c = traits_type::to_char_type(ch);
            if (pbase())
            {
                *pptr() = c;
                pbump(1);
            }
            else
                device_write(&c, 1);
        }
        return traits_type::not_eof(ch);
    }
    int sync() override
    {
        Enter e(*this);
        if (pbase())
            flush_area();
        else
            yield(YK_STREAM);
        return failed ? -1 : 0;
    }
};

} // namespace lsim

// ---------------------------------------------------------------- link-time seams
extern "C"
{
    int __real_pthread_mutex_lock(pthread_mutex_t*);
    int __real_pthread_mutex_unlock(pthread_mutex_t*);
    int __real_pthread_mutex_trylock(pthread_mutex_t*);
    int __real_pthread_mutex_timedlock(pthread_mutex_t*, const struct timespec*);
    int __real_pthread_mutex_clocklock(pthread_mutex_t*, clockid_t, const struct timespec*);
    int __real_pthread_rwlock_rdlock(pthread_rwlock_t*);
    int __real_pthread_rwlock_wrlock(pthread_rwlock_t*);
    int __real_pthread_rwlock_tryrdlock(pthread_rwlock_t*);
    int __real_pthread_rwlock_trywrlock(pthread_rwlock_t*);
    int __real_pthread_rwlock_unlock(pthread_rwlock_t*);
    int __real_pthread_spin_lock(pthread_spinlock_t*);
    int __real_pthread_spin_trylock(pthread_spinlock_t*);
    int __real_pthread_spin_unlock(pthread_spinlock_t*);
    int __real_sched_yield(void);
}
